#!/usr/bin/env python3
"""Regenerates MANIFEST.json from props/*.json (claimed properties) and na.json (not applicable)."""
import json, os, glob
V = os.path.dirname(os.path.abspath(__file__))
props = [json.loads(l) for l in open(os.path.join(V, "properties.jsonl"))]
na = json.load(open(os.path.join(V, "na.json")))
checks = []
claimed = set()
for p in props:
    pid = p["id"]
    f = os.path.join(V, "props", pid + ".json")
    if not os.path.exists(f) or pid in na:
        continue
    c = json.load(open(f))
    claimed.add(pid)
    checks.append({
        "property_id": pid,
        "quick_cmd": f"./check {pid} --tier quick",
        "thorough_cmd": f"./check {pid} --tier thorough",
        "evidence_file": f"/verif/evidence/{pid}.json",
        "replay_cmd_template": f"./check {pid} --replay {{path}}",
        "engine": "gosmt",
        "level_claimed": {"category": c["level"], "text": c["explanation"], "design_ref": c.get("design_ref", "DESIGN.md §5 " + pid)},
        "level_note": "Bounds: " + c.get("bounds", "") + " | Outside the claim: " + c.get("outside", "") + " | Trusted/assumed: " + "; ".join(c.get("assumptions", [])),
        "technique": c.get("technique", "bounded symbolic execution of the real Go SSA (gosmt) with SMT queries (z3/z3-new/cvc5); counterexamples replayed against the real code"),
    })
m = {
    "version": 1,
    "setup_cmd": "mkdir -p bin/gopath && ln -sf /usr/local/bin/go1.26.8 bin/gopath/go && cd engine && GOFLAGS=-mod=mod GOPROXY=off GOSUMDB=off GOTOOLCHAIN=local go1.26.8 build -o ../bin/gosmt .",
    "hooks": {"guard": "verif", "enable": "harness files are injected by file overlay (packages.Config.Overlay / go test -overlay) with -tags verif; nothing is committed into /repo",
              "baseline_off_cmd": "cd /repo/distsys && GOTOOLCHAIN=local GOFLAGS= go1.26.8 test -vet=off -count=1 ./...",
              "source_commits": [], "add_only": True},
    "engines": [{"name": "gosmt", "path": "/verif/engine", "serves_properties": sorted(claimed),
                 "kind_free_text": "symbolic executor for Go SSA (golang.org/x/tools/go/ssa) written for this task: shape-concrete / value-symbolic states, path exploration by re-execution with decision prefixes, SMT-LIB2 queries to z3 4.8.12 / z3 5.1.0 / cvc5 1.0, coroutine scheduler with symbolic schedule, models of gob/net/rpc/time/sync"}],
    "checks": checks,
    "not_applicable": [{"property_id": k, "reason": v} for k, v in na.items() if k not in claimed],
    "notes": "See DESIGN.md. Every check re-loads /repo's working tree, regenerates the encoding, and writes evidence/<id>.json.",
}
json.dump(m, open(os.path.join(V, "MANIFEST.json"), "w"), indent=1)
print("claimed:", sorted(claimed), "na:", [k for k in na if k not in claimed])
