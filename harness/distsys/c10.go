//go:build verif

package distsys

// C10: nondeterministic choices are in range and no enabled alternative is starved.
// Real code under test: roundRobinFairnessCounter.BeginCriticalSection / NextFairnessCounter.

func init() {
	verifRegister("HarnessC10_NextInv", HarnessC10_NextInv)
	verifRegister("HarnessC10_BeginInv", HarnessC10_BeginInv)
	verifRegister("HarnessC10_Step", HarnessC10_Step)
	verifRegister("HarnessC10_StepSplit", HarnessC10_StepSplit)
	verifRegister("HarnessC10_Truncate", HarnessC10_Truncate)
	verifRegister("HarnessC10_Window", HarnessC10_Window)
}

var c10ids = []string{"a", "b", "c"}

const c10MaxCeil = 16

// c10Arbitrary builds an arbitrary counter of depth d (ids from a pool, counts/ceilings symbolic) satisfying the
// representation invariant count_i < ceiling_i, 1 <= ceiling_i <= maxCeil.
func c10Arbitrary(d int, npool int, maxCeil uint) *roundRobinFairnessCounter {
	c := &roundRobinFairnessCounter{pc: "L"}
	for i := 0; i < d; i++ {
		rec := roundRobinFairnessCounterRecord{
			id:      c10ids[verifChoose("id", npool)],
			count:   uint(verifNondetUint32("count")),
			ceiling: uint(verifNondetUint32("ceiling")),
		}
		verifAssume(rec.ceiling >= 1 && rec.ceiling <= maxCeil)
		verifAssume(rec.count < rec.ceiling)
		c.counterStack = append(c.counterStack, rec)
	}
	return c
}

func c10WellFormed(c *roundRobinFairnessCounter) bool {
	ok := c.counterIdx >= 0 && c.counterIdx <= len(c.counterStack)
	for _, r := range c.counterStack {
		ok = ok && r.ceiling >= 1 && r.count < r.ceiling
	}
	return ok
}

// Obligation 1a: NextFairnessCounter preserves the invariant from an arbitrary state and returns a value in range.
func HarnessC10_NextInv() {
	d := verifChoose("depth", 5)
	c := c10Arbitrary(d, 2, 1<<30)
	c.counterIdx = verifChoose("idx", d+1)
	id := c10ids[verifChoose("argid", 2)]
	ceiling := uint(verifNondetUint32("argceiling"))
	verifAssume(ceiling >= 1 && ceiling <= 1<<30)
	before := len(c.counterStack)
	idx := c.counterIdx
	var prefix []roundRobinFairnessCounterRecord
	prefix = append(prefix, c.counterStack[:idx]...)

	r := c.NextFairnessCounter(id, ceiling) // REAL

	verifAssert(r < ceiling, "returned choice is below its bound")
	verifAssert(c10WellFormed(c), "representation invariant preserved by NextFairnessCounter")
	verifAssert(c.counterIdx == idx+1, "counterIdx advanced by one")
	verifAssert(len(c.counterStack) >= idx+1 && len(c.counterStack) <= before+1, "stack length sane")
	verifAssert(c.counterStack[idx].id == id && c.counterStack[idx].ceiling == ceiling, "digit at idx matches consulted choice point")
	verifAssert(c.counterStack[idx].count == r, "returned value is the stored digit")
	for i := 0; i < idx; i++ {
		verifAssert(c.counterStack[i] == prefix[i], "prefix digits untouched")
	}
	verifReach("end")
}

// Obligation 1b: BeginCriticalSection preserves the invariant (same pc) or resets (different pc).
func HarnessC10_BeginInv() {
	d := verifChoose("depth", 5)
	c := c10Arbitrary(d, 1, c10MaxCeil)
	c.counterIdx = verifChoose("idx", d+1)
	samePC := verifNondetBool("samepc")
	pc := "L"
	if !samePC {
		pc = "M"
	}
	c.BeginCriticalSection(pc) // REAL
	verifAssert(c.counterIdx == 0, "counterIdx reset")
	verifAssert(c10WellFormed(c), "representation invariant preserved by BeginCriticalSection")
	if samePC {
		verifAssert(len(c.counterStack) == d, "same pc keeps the stack")
	} else {
		verifAssert(len(c.counterStack) == 0 && c.pc == "M", "different pc resets the stack")
	}
	verifReach("end")
}

func c10Value(c *roundRobinFairnessCounter) (value, period uint) {
	period = 1
	for _, r := range c.counterStack {
		value = value*r.ceiling + r.count
		period *= r.ceiling
	}
	return
}

func c10StepBody(d int, c *roundRobinFairnessCounter) {
	type pt struct {
		id      string
		ceiling uint
	}
	var pts []pt
	for _, r := range c.counterStack {
		pts = append(pts, pt{r.id, r.ceiling})
	}
	v0, period := c10Value(c)
	c.BeginCriticalSection("L") // REAL
	for i := 0; i < d; i++ {    // the attempt consults the same choice points
		r := c.NextFairnessCounter(pts[i].id, pts[i].ceiling) // REAL
		verifAssert(r < pts[i].ceiling, "choice in range")
	}
	v1, period1 := c10Value(c)
	verifAssert(len(c.counterStack) == d, "depth unchanged when the same choice points are consulted")
	verifAssert(period1 == period, "period unchanged")
	verifAssert(v1 == (v0+1)%period, "mixed-radix value advances by exactly one modulo the product of the bounds")
	verifReach("end")
}

// Obligation 2 (symbolic ceilings <= 16, depth <= 3): value' = (value+1) mod prod(ceilings).
func HarnessC10_Step() {
	d := 1 + verifChoose("depth", 3)
	c := c10Arbitrary(d, 1, c10MaxCeil)
	c10StepBody(d, c)
}

// Obligation 2 with ceilings case-split to constants <= 4 (linear arithmetic; every solver decides it).
func HarnessC10_StepSplit() {
	d := 1 + verifChoose("depth", 3)
	c := &roundRobinFairnessCounter{pc: "L"}
	for i := 0; i < d; i++ {
		ceil := uint(1 + verifChoose("ceil", 4))
		cnt := uint(verifNondetUint32("count"))
		verifAssume(cnt < ceil)
		c.counterStack = append(c.counterStack, roundRobinFairnessCounterRecord{id: "a", count: cnt, ceiling: ceil})
	}
	c10StepBody(d, c)
}

// Obligation 3: a changed id or ceiling at position i truncates exactly the suffix from i and re-initialises digit i.
func HarnessC10_Truncate() {
	d := 1 + verifChoose("depth", 4)
	c := c10Arbitrary(d, 2, 1<<30)
	i := verifChoose("pos", d)
	c.counterIdx = i
	changeID := verifNondetBool("changeid")
	id := c.counterStack[i].id
	ceiling := c.counterStack[i].ceiling
	if changeID {
		id = "zz"
	} else {
		ceiling = uint(verifNondetUint32("newceiling"))
		verifAssume(ceiling >= 1 && ceiling <= 1<<30 && ceiling != c.counterStack[i].ceiling)
	}
	var prefix []roundRobinFairnessCounterRecord
	prefix = append(prefix, c.counterStack[:i]...)
	r := c.NextFairnessCounter(id, ceiling) // REAL
	verifAssert(len(c.counterStack) == i+1, "suffix from the changed position is dropped")
	verifAssert(r < ceiling, "fresh digit in range")
	verifAssert(c.counterStack[i].id == id && c.counterStack[i].ceiling == ceiling, "fresh digit recorded")
	for k := 0; k < i; k++ {
		verifAssert(c.counterStack[k] == prefix[k], "prefix untouched")
	}
	verifReach("end")
}

// Unrolled window: for concrete ceiling tuples, prod(ceilings) consecutive attempts yield pairwise distinct tuples.
func HarnessC10_Window() {
	verifUnwind(2000, false)
	shapes := [][]uint{{2, 2}, {3, 2}, {2, 3, 2}, {4}, {1, 3}}
	sh := shapes[verifChoose("shape", len(shapes))]
	c := &roundRobinFairnessCounter{pc: "L"}
	period := uint(1)
	for _, ceil := range sh {
		cnt := uint(verifNondetUint32("count"))
		verifAssume(cnt < ceil)
		c.counterStack = append(c.counterStack, roundRobinFairnessCounterRecord{id: "a", count: cnt, ceiling: ceil})
		period *= ceil
	}
	var seen [][]uint
	for k := uint(0); k < period; k++ {
		c.BeginCriticalSection("L") // REAL
		var tuple []uint
		for _, ceil := range sh {
			tuple = append(tuple, c.NextFairnessCounter("a", ceil)) // REAL
		}
		for _, old := range seen {
			same := true
			for j := range tuple {
				same = same && old[j] == tuple[j]
			}
			verifAssert(!same, "every combination is tried at most once per window")
		}
		seen = append(seen, tuple)
	}
	verifReach("end")
}
