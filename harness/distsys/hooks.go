//go:build verif

package distsys

// Read-only observation hooks for harnesses living in other packages (injected by overlay, never committed to /repo).

import "github.com/DistCompiler/pgo/distsys/tla"

// VerifLocalValue returns the current value held by a local resource without going through a critical section.
func VerifLocalValue(r *LocalArchetypeResource) tla.Value { return r.value }

// VerifLocalOldValue returns the last committed value of a local resource.
func VerifLocalOldValue(r *LocalArchetypeResource) tla.Value { return r.oldValue }

// VerifDirtyCount returns how many resource handles other than the program counter are marked dirty
// (the run loop reads .pc before it discovers that the archetype is done).
func VerifDirtyCount(ctx *MPCalContext) int {
	n := 0
	for h := range ctx.dirtyResourceHandles {
		if h != ".pc" {
			n++
		}
	}
	return n
}

// VerifSetVClocksEnabled switches the context's vector clock sink on.
func VerifEnableVClocks(ctx *MPCalContext) { ctx.vclockSink.SetEnabled(true) }

// VerifPreRun performs the start-up part of Run (parameter checks, archetype preamble) without entering the loop.
func VerifPreRun(ctx *MPCalContext) { ctx.preRun() }

// VerifStep executes exactly one iteration of Run's loop body: one critical-section attempt at the current label,
// followed by the REAL commit() or abort(). It returns whether the attempt committed; err is nil for committed and
// aborted attempts and carries ErrDone / assertion failures / resource errors otherwise (the attempt is then rolled
// back with abort() so that the context can be inspected).
func VerifStep(ctx *MPCalContext) (committed bool, err error) {
	pc := ctx.iface.RequireArchetypeResource(".pc")
	ctx.eventState.BeginEvent()
	ctx.vclockSink.InitCriticalSection(ctx.archetype.Name, ctx.self)
	pcVal, err := ctx.iface.Read(pc, nil)
	if err == nil {
		pcValStr := pcVal.AsString()
		ctx.fairnessCounter.BeginCriticalSection(pcValStr)
		criticalSection := ctx.iface.getCriticalSection(pcValStr)
		err = criticalSection.Body(ctx.iface)
		if err == nil {
			err = ctx.commit()
		}
	}
	switch err {
	case nil:
		return true, nil
	case ErrCriticalSectionAborted:
		ctx.abort()
		return false, nil
	}
	ctx.abort()
	return false, err
}
