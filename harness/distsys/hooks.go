//go:build verif

package distsys

// Read-only observation hooks for harnesses living in other packages (injected by overlay, never committed to /repo).

import "github.com/DistCompiler/pgo/distsys/tla"

// VerifLocalValue returns the current value held by a local resource without going through a critical section.
func VerifLocalValue(r *LocalArchetypeResource) tla.Value { return r.value }

// VerifLocalOldValue returns the last committed value of a local resource.
func VerifLocalOldValue(r *LocalArchetypeResource) tla.Value { return r.oldValue }

// VerifDirtyCount returns how many resource handles other than the program counter are marked dirty
// (the run loop reads .pc before it discovers that the archetype is done).
func VerifDirtyCount(ctx *MPCalContext) int {
	n := 0
	for h := range ctx.dirtyResourceHandles {
		if h != ".pc" {
			n++
		}
	}
	return n
}

// VerifSetVClocksEnabled switches the context's vector clock sink on.
func VerifEnableVClocks(ctx *MPCalContext) { ctx.vclockSink.SetEnabled(true) }
