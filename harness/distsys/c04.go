//go:build verif

package distsys

// C04: procedure calls follow PlusCal stack semantics (recursion, mutual recursion, tail calls, ref parameters,
// aborts between call and return). Hand-built MPCalProc / MPCalArchetype tables following the code generator's
// conventions (cf. ProcedureSpaghetti.go), driven by the REAL Run loop, Call, Return, TailCall, Goto, commit, abort.

import (
	"github.com/DistCompiler/pgo/distsys/tla"
)

func init() {
	verifRegister("HarnessC04_Recursion", HarnessC04_Recursion)
	verifRegister("HarnessC04_Mutual", HarnessC04_Mutual)
	verifRegister("HarnessC04_TailCall", HarnessC04_TailCall)
	verifRegister("HarnessC04_RefParam", HarnessC04_RefParam)
	verifRegister("HarnessC04_TailCallNested", HarnessC04_TailCallNested)
}

type c04Faults struct {
	budget int // how many aborts may still be injected
}

// abortHere injects an abort of the current attempt on a symbolic bit (at most budget times per run)
func (f *c04Faults) abortHere(tag string) bool {
	if f.budget > 0 && verifNondetBool(tag) {
		f.budget--
		return true
	}
	return false
}

func c04Num(iface ArchetypeInterface, name string) (int32, error) {
	v, err := iface.Read(iface.RequireArchetypeResource(name), nil)
	if err != nil {
		return 0, err
	}
	return v.AsNumber(), nil
}

func c04StackDepth(iface ArchetypeInterface) int {
	return iface.ReadArchetypeResourceLocal(".stack").AsTuple().Len()
}

func c04Errors(names ...string) []MPCalCriticalSection {
	var out []MPCalCriticalSection
	for _, n := range names {
		out = append(out, MPCalCriticalSection{Name: n + ".Error", Body: func(ArchetypeInterface) error { return ErrProcedureFallthrough }})
	}
	return out
}

// ---- template 1: self-recursion with a value parameter and a local, depth <= 3 ----
//
//	procedure Rec(n) variables loc; {
//	  r1: loc := n * 16 + base; if (n > 0) { call Rec(n - 1) } ; (falls to r2)
//	  r2: assert loc = n * 16 + base (every activation sees its own n and loc); trace := Append(trace, n); return }
//	archetype A() { a1: call Rec(depth); a2: assert stack = <<>>; Done }
func HarnessC04_Recursion() {
	depth := int32(verifChoose("depth", 4))
	base := verifNondetInt32("base")
	verifAssume(base >= 0 && base < 1000)
	faults := &c04Faults{budget: verifChoose("aborts", 3)}
	var visited []int32
	procs := MakeMPCalProcTable(MPCalProc{
		Name: "Rec", Label: "Rec.r1", StateVars: []string{"Rec.n", "Rec.loc"},
		PreAmble: func(iface ArchetypeInterface) error {
			return iface.Write(iface.RequireArchetypeResource("Rec.loc"), nil, tla.ModuledefaultInitValue)
		},
	})
	sections := []MPCalCriticalSection{
		{Name: "A.a1", Body: func(iface ArchetypeInterface) error {
			if err := iface.Call("Rec", "A.a2", tla.MakeNumber(depth)); err != nil {
				return err
			}
			if faults.abortHere("abort.a1") {
				return ErrCriticalSectionAborted
			}
			return nil
		}},
		{Name: "A.a2", Body: func(iface ArchetypeInterface) error {
			verifAssert(c04StackDepth(iface) == 0, "stack is empty again after the outermost return")
			verifAssert(len(visited) == int(depth)+1, "every activation resumed exactly once")
			for i, n := range visited {
				verifAssert(n == int32(i), "activations resume innermost first")
			}
			verifReach("done")
			return ErrDone
		}},
		{Name: "Rec.r1", Body: func(iface ArchetypeInterface) error {
			n, err := c04Num(iface, "Rec.n")
			if err != nil {
				return err
			}
			if err := iface.Write(iface.RequireArchetypeResource("Rec.loc"), nil, tla.MakeNumber(n*16+base)); err != nil {
				return err
			}
			if n > 0 {
				if err := iface.Call("Rec", "Rec.r2", tla.MakeNumber(n-1)); err != nil {
					return err
				}
			} else if err := iface.Goto("Rec.r2"); err != nil {
				return err
			}
			if faults.abortHere("abort.r1") {
				return ErrCriticalSectionAborted
			}
			return nil
		}},
		{Name: "Rec.r2", Body: func(iface ArchetypeInterface) error {
			nv, err := iface.Read(iface.RequireArchetypeResource("Rec.n"), nil)
			if err != nil {
				return err
			}
			lv, err := iface.Read(iface.RequireArchetypeResource("Rec.loc"), nil)
			if err != nil {
				return err
			}
			verifAssert(nv.IsNumber() && lv.IsNumber(), "activation sees its own parameter and local (not an uninitialised value)")
			n, loc := nv.AsNumber(), lv.AsNumber()
			verifAssert(loc == n*16+base, "activation sees the local it wrote before the nested call")
			verifAssert(c04StackDepth(iface) == int(depth-n)+1, "stack depth matches the nesting level")
			if err := iface.Return(); err != nil {
				return err
			}
			if faults.abortHere("abort.r2") {
				return ErrCriticalSectionAborted
			}
			visited = append(visited, n)
			return nil
		}},
	}
	arch := MPCalArchetype{Name: "A", Label: "A.a1", JumpTable: MakeMPCalJumpTable(append(sections, c04Errors("Rec")...)...), ProcTable: procs,
		PreAmble: func(ArchetypeInterface) {}}
	ctx := NewMPCalContext(tla.MakeNumber(1), arch)
	err := ctx.Run()
	verifAssert(err == nil, "run terminates normally")
	verifReach("end")
}

// ---- template 2: mutual recursion P(n) -> Q(n-1) -> P(n-2) ... each with its own local ----
func HarnessC04_Mutual() {
	depth := int32(verifChoose("depth", 4))
	base := verifNondetInt32("base")
	verifAssume(base >= 0 && base < 1000)
	faults := &c04Faults{budget: verifChoose("aborts", 2)}
	resumed := 0
	mk := func(self, other string) []MPCalCriticalSection {
		return []MPCalCriticalSection{
			{Name: self + ".l1", Body: func(iface ArchetypeInterface) error {
				n, err := c04Num(iface, self+".n")
				if err != nil {
					return err
				}
				if err := iface.Write(iface.RequireArchetypeResource(self+".loc"), nil, tla.MakeNumber(n*8+base)); err != nil {
					return err
				}
				if n > 0 {
					if err := iface.Call(other, self+".l2", tla.MakeNumber(n-1)); err != nil {
						return err
					}
				} else if err := iface.Goto(self + ".l2"); err != nil {
					return err
				}
				if faults.abortHere("abort.l1") {
					return ErrCriticalSectionAborted
				}
				return nil
			}},
			{Name: self + ".l2", Body: func(iface ArchetypeInterface) error {
				nv, err := iface.Read(iface.RequireArchetypeResource(self+".n"), nil)
				if err != nil {
					return err
				}
				lv, err := iface.Read(iface.RequireArchetypeResource(self+".loc"), nil)
				if err != nil {
					return err
				}
				verifAssert(nv.IsNumber() && lv.IsNumber(), "mutual recursion: activation sees initialised parameter and local")
				verifAssert(lv.AsNumber() == nv.AsNumber()*8+base, "mutual recursion: activation sees its own local")
				verifAssert(int(nv.AsNumber()) == resumed, "mutual recursion: activations resume innermost first")
				if err := iface.Return(); err != nil {
					return err
				}
				if faults.abortHere("abort.l2") {
					return ErrCriticalSectionAborted
				}
				resumed++
				return nil
			}},
		}
	}
	pre := func(name string) func(ArchetypeInterface) error {
		return func(iface ArchetypeInterface) error {
			return iface.Write(iface.RequireArchetypeResource(name+".loc"), nil, tla.ModuledefaultInitValue)
		}
	}
	procs := MakeMPCalProcTable(
		MPCalProc{Name: "P", Label: "P.l1", StateVars: []string{"P.n", "P.loc"}, PreAmble: pre("P")},
		MPCalProc{Name: "Q", Label: "Q.l1", StateVars: []string{"Q.n", "Q.loc"}, PreAmble: pre("Q")},
	)
	sections := append(mk("P", "Q"), mk("Q", "P")...)
	sections = append(sections,
		MPCalCriticalSection{Name: "A.a1", Body: func(iface ArchetypeInterface) error { return iface.Call("P", "A.a2", tla.MakeNumber(depth)) }},
		MPCalCriticalSection{Name: "A.a2", Body: func(iface ArchetypeInterface) error {
			verifAssert(c04StackDepth(iface) == 0 && resumed == int(depth)+1, "mutual recursion: all activations returned")
			verifReach("done")
			return ErrDone
		}},
	)
	arch := MPCalArchetype{Name: "A", Label: "A.a1", JumpTable: MakeMPCalJumpTable(append(sections, c04Errors("P", "Q")...)...), ProcTable: procs,
		PreAmble: func(ArchetypeInterface) {}}
	ctx := NewMPCalContext(tla.MakeNumber(1), arch)
	verifAssert(ctx.Run() == nil, "run terminates normally")
	verifReach("end")
}

// ---- template 3: tail-call chain T(n, acc): if n = 0 { out := acc; return } else tailcall T(n-1, acc+n) ----
func HarnessC04_TailCall() {
	n0 := int32(verifChoose("n", 4))
	acc0 := verifNondetInt32("acc")
	verifAssume(acc0 >= 0 && acc0 < 1000)
	faults := &c04Faults{budget: verifChoose("aborts", 2)}
	out := NewLocalArchetypeResource(tla.MakeNumber(-1))
	procs := MakeMPCalProcTable(MPCalProc{Name: "T", Label: "T.t1", StateVars: []string{"T.n", "T.acc"},
		PreAmble: func(ArchetypeInterface) error { return nil }})
	sections := []MPCalCriticalSection{
		{Name: "A.a1", Body: func(iface ArchetypeInterface) error {
			return iface.Call("T", "A.a2", tla.MakeNumber(n0), tla.MakeNumber(acc0))
		}},
		{Name: "A.a2", Body: func(iface ArchetypeInterface) error {
			verifAssert(c04StackDepth(iface) == 0, "tail calls: stack empty after the final return")
			verifReach("done")
			return ErrDone
		}},
		{Name: "T.t1", Body: func(iface ArchetypeInterface) error {
			n, err := c04Num(iface, "T.n")
			if err != nil {
				return err
			}
			acc, err := c04Num(iface, "T.acc")
			if err != nil {
				return err
			}
			verifAssert(c04StackDepth(iface) == 1, "tail calls reuse the frame: stack depth stays 1")
			if n == 0 {
				h, err := iface.RequireArchetypeResourceRef("A.out")
				if err != nil {
					return err
				}
				if err := iface.Write(h, nil, tla.MakeNumber(acc)); err != nil {
					return err
				}
				if err := iface.Return(); err != nil {
					return err
				}
			} else if err := iface.TailCall("T", tla.MakeNumber(n-1), tla.MakeNumber(acc+n)); err != nil {
				return err
			}
			if faults.abortHere("abort.t1") {
				return ErrCriticalSectionAborted
			}
			return nil
		}},
	}
	arch := MPCalArchetype{Name: "A", Label: "A.a1", RequiredRefParams: []string{"A.out"},
		JumpTable: MakeMPCalJumpTable(append(sections, c04Errors("T")...)...), ProcTable: procs, PreAmble: func(ArchetypeInterface) {}}
	ctx := NewMPCalContext(tla.MakeNumber(1), arch, EnsureArchetypeRefParam("out", out))
	verifAssert(ctx.Run() == nil, "run terminates normally")
	want := acc0
	for i := int32(1); i <= n0; i++ {
		want += i
	}
	verifAssert(out.value.IsNumber() && out.value.AsNumber() == want, "tail-call chain computes the accumulated result and returns to the original caller")
	verifReach("end")
}

// ---- template 4: by-reference parameter threaded through two levels; caller's other variables unchanged ----
//
//	procedure Inner(ref r) { i1: r := r + 1; return }
//	procedure Outer(ref r, v) variables keep; { o1: keep := v; call Inner(ref r); o2: r := r + keep; return }
//	archetype A(ref x, y) variables mine = m0; { a1: call Outer(ref x, y); a2: assert mine = m0; Done }
func HarnessC04_RefParam() {
	x0, y0, m0 := verifNondetInt32("x"), verifNondetInt32("y"), verifNondetInt32("m")
	verifAssume(x0 >= 0 && x0 < 1000 && y0 >= 0 && y0 < 1000)
	faults := &c04Faults{budget: verifChoose("aborts", 3)}
	x := NewLocalArchetypeResource(tla.MakeNumber(x0))
	procs := MakeMPCalProcTable(
		MPCalProc{Name: "Inner", Label: "Inner.i1", StateVars: []string{"Inner.r"}, PreAmble: func(ArchetypeInterface) error { return nil }},
		MPCalProc{Name: "Outer", Label: "Outer.o1", StateVars: []string{"Outer.r", "Outer.v", "Outer.keep"},
			PreAmble: func(iface ArchetypeInterface) error {
				return iface.Write(iface.RequireArchetypeResource("Outer.keep"), nil, tla.ModuledefaultInitValue)
			}},
	)
	sections := []MPCalCriticalSection{
		{Name: "A.a1", Body: func(iface ArchetypeInterface) error {
			xr := iface.ReadArchetypeResourceLocal("A.x") // the reference (a resource name), as generated code passes it
			y := iface.ReadArchetypeResourceLocal("A.y")
			if err := iface.Call("Outer", "A.a2", xr, y); err != nil {
				return err
			}
			if faults.abortHere("abort.a1") {
				return ErrCriticalSectionAborted
			}
			return nil
		}},
		{Name: "A.a2", Body: func(iface ArchetypeInterface) error {
			mine, err := c04Num(iface, "A.mine")
			if err != nil {
				return err
			}
			verifAssert(mine == m0, "caller's own variable is unchanged by the calls")
			verifAssert(c04StackDepth(iface) == 0, "ref params: stack empty at the end")
			verifReach("done")
			return ErrDone
		}},
		{Name: "Outer.o1", Body: func(iface ArchetypeInterface) error {
			v, err := c04Num(iface, "Outer.v")
			if err != nil {
				return err
			}
			if err := iface.Write(iface.RequireArchetypeResource("Outer.keep"), nil, tla.MakeNumber(v)); err != nil {
				return err
			}
			r := iface.ReadArchetypeResourceLocal("Outer.r")
			if err := iface.Call("Inner", "Outer.o2", r); err != nil {
				return err
			}
			if faults.abortHere("abort.o1") {
				return ErrCriticalSectionAborted
			}
			return nil
		}},
		{Name: "Outer.o2", Body: func(iface ArchetypeInterface) error {
			h, err := iface.RequireArchetypeResourceRef("Outer.r")
			if err != nil {
				return err
			}
			cur, err := iface.Read(h, nil)
			if err != nil {
				return err
			}
			keep, err := iface.Read(iface.RequireArchetypeResource("Outer.keep"), nil)
			if err != nil {
				return err
			}
			verifAssert(keep.IsNumber() && keep.AsNumber() == y0, "callee's local survives the nested call")
			if err := iface.Write(h, nil, tla.MakeNumber(cur.AsNumber()+keep.AsNumber())); err != nil {
				return err
			}
			if err := iface.Return(); err != nil {
				return err
			}
			if faults.abortHere("abort.o2") {
				return ErrCriticalSectionAborted
			}
			return nil
		}},
		{Name: "Inner.i1", Body: func(iface ArchetypeInterface) error {
			h, err := iface.RequireArchetypeResourceRef("Inner.r")
			if err != nil {
				return err
			}
			cur, err := iface.Read(h, nil)
			if err != nil {
				return err
			}
			if err := iface.Write(h, nil, tla.MakeNumber(cur.AsNumber()+1)); err != nil {
				return err
			}
			if err := iface.Return(); err != nil {
				return err
			}
			if faults.abortHere("abort.i1") {
				return ErrCriticalSectionAborted
			}
			return nil
		}},
	}
	arch := MPCalArchetype{Name: "A", Label: "A.a1", RequiredRefParams: []string{"A.x"}, RequiredValParams: []string{"A.y"},
		JumpTable: MakeMPCalJumpTable(append(sections, c04Errors("Inner", "Outer")...)...), ProcTable: procs,
		PreAmble: func(iface ArchetypeInterface) { iface.EnsureArchetypeResourceLocal("A.mine", tla.MakeNumber(m0)) }}
	ctx := NewMPCalContext(tla.MakeNumber(1), arch, EnsureArchetypeRefParam("x", x), EnsureArchetypeValueParam("y", tla.MakeNumber(y0)))
	verifAssert(ctx.Run() == nil, "run terminates normally")
	verifAssert(x.value.IsNumber() && x.value.AsNumber() == x0+1+y0, "the referenced variable received both updates, exactly once each despite aborted attempts")
	verifReach("end")
}

// ---- template 5: a tail-call chain underneath a live activation of the same procedure ----
//
//	procedure W(n, tail) {
//	  w1: if (~tail) { call W(depth, TRUE) }            \* returns to w2 of THIS activation
//	      else if (n = 0) { return } else { call W(n - 1, TRUE); return }   \* = tail call
//	  w2: seen := n; return }                           \* must see this activation's own n, not the chain's
//	archetype A { a1: call W(n0, FALSE); a2: Done }
func HarnessC04_TailCallNested() {
	n0 := verifNondetInt32("n")
	verifAssume(n0 >= 100 && n0 < 1000)
	depth := int32(verifChoose("depth", 4))
	faults := &c04Faults{budget: verifChoose("aborts", 2)}
	seen := NewLocalArchetypeResource(tla.MakeNumber(-1))
	procs := MakeMPCalProcTable(MPCalProc{Name: "W", Label: "W.w1", StateVars: []string{"W.n", "W.tail"},
		PreAmble: func(ArchetypeInterface) error { return nil }})
	sections := []MPCalCriticalSection{
		{Name: "A.a1", Body: func(iface ArchetypeInterface) error {
			return iface.Call("W", "A.a2", tla.MakeNumber(n0), tla.ModuleFALSE)
		}},
		{Name: "A.a2", Body: func(iface ArchetypeInterface) error {
			verifAssert(c04StackDepth(iface) == 0, "nested tail calls: stack empty after the final return")
			verifReach("done")
			return ErrDone
		}},
		{Name: "W.w1", Body: func(iface ArchetypeInterface) error {
			n, err := c04Num(iface, "W.n")
			if err != nil {
				return err
			}
			tail, err := iface.Read(iface.RequireArchetypeResource("W.tail"), nil)
			if err != nil {
				return err
			}
			switch {
			case !tail.AsBool():
				verifAssert(c04StackDepth(iface) == 1, "the outer activation runs on one frame")
				err = iface.Call("W", "W.w2", tla.MakeNumber(depth), tla.ModuleTRUE)
			case n == 0:
				verifAssert(c04StackDepth(iface) == 2, "a tail-call chain under a live activation keeps exactly one frame of its own")
				err = iface.Return()
			default:
				verifAssert(c04StackDepth(iface) == 2, "a tail-call chain under a live activation keeps exactly one frame of its own")
				err = iface.TailCall("W", tla.MakeNumber(n-1), tla.ModuleTRUE)
			}
			if err != nil {
				return err
			}
			if faults.abortHere("abort.w1") {
				return ErrCriticalSectionAborted
			}
			return nil
		}},
		{Name: "W.w2", Body: func(iface ArchetypeInterface) error {
			n, err := c04Num(iface, "W.n")
			if err != nil {
				return err
			}
			tail, err := iface.Read(iface.RequireArchetypeResource("W.tail"), nil)
			if err != nil {
				return err
			}
			verifAssert(n == n0 && !tail.AsBool(), "when the tail-call chain returns, the enclosing activation sees its own parameters again")
			h, err := iface.RequireArchetypeResourceRef("A.seen")
			if err != nil {
				return err
			}
			if err := iface.Write(h, nil, tla.MakeNumber(n)); err != nil {
				return err
			}
			return iface.Return()
		}},
	}
	arch := MPCalArchetype{Name: "A", Label: "A.a1", RequiredRefParams: []string{"A.seen"},
		JumpTable: MakeMPCalJumpTable(append(sections, c04Errors("W")...)...), ProcTable: procs, PreAmble: func(ArchetypeInterface) {}}
	ctx := NewMPCalContext(tla.MakeNumber(1), arch, EnsureArchetypeRefParam("seen", seen))
	verifAssert(ctx.Run() == nil, "run terminates normally")
	verifAssert(seen.value.IsNumber() && seen.value.AsNumber() == n0, "the enclosing activation's parameter survives the tail-call chain")
	verifReach("end")
}
