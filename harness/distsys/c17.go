//go:build verif

package distsys

// C17: Run/Stop/Close lifecycle. One goroutine runs the REAL MPCalContext.Run, up to three goroutines call the REAL
// Stop (each possibly twice), started before/during/after the run as the (symbolic, delay-bounded) scheduler decides.

import (
	"errors"
	"fmt"

	"github.com/DistCompiler/pgo/distsys/tla"
)

func init() {
	verifRegister("HarnessC17_Lifecycle", HarnessC17_Lifecycle)
	verifRegister("HarnessC17_StopBeforeRun", HarnessC17_StopBeforeRun)
}

type c17Res struct {
	ArchetypeResourceLeafMixin
	closes  int
	// Close reports an error (after having closed): every other resource must still be closed, and Run must report it
	closeErr error
	commits *int
	readErr error
	slow    bool
}

func (r *c17Res) Abort(ArchetypeInterface) chan struct{}  { return nil }
func (r *c17Res) PreCommit(ArchetypeInterface) chan error { return nil }
func (r *c17Res) Commit(ArchetypeInterface) chan struct{} {
	*r.commits++
	return nil
}
func (r *c17Res) ReadValue(ArchetypeInterface) (tla.Value, error) {
	if r.readErr != nil {
		return tla.Value{}, r.readErr
	}
	return tla.MakeNumber(0), nil
}
func (r *c17Res) WriteValue(ArchetypeInterface, tla.Value) error { return nil }
func (r *c17Res) Close() error {
	if r.slow {
		verifYield() // cleanup takes time
	}
	r.closes++
	return r.closeErr
}

var errC17Resource = errors.New("resource failure")
var errC17Close = errors.New("close failure")

const (
	c17Loop = iota
	c17Done
	c17Assert
	c17ErrorLabel
	c17ResError
	c17Modes
)

func c17Context(mode int, commits *int) (*MPCalContext, []*c17Res) {
	r1 := &c17Res{commits: commits, slow: true}
	r2 := &c17Res{commits: commits}
	if verifChoose("close.fails.r1", 2) == 1 {
		r1.closeErr = errC17Close
	}
	if verifChoose("close.fails.r2", 2) == 1 {
		r2.closeErr = errC17Close
	}
	if mode == c17ResError {
		r2.readErr = errC17Resource
	}
	sections := []MPCalCriticalSection{
		{Name: "A.l1", Body: func(iface ArchetypeInterface) error {
			h, err := iface.RequireArchetypeResourceRef("A.r1")
			if err != nil {
				return err
			}
			if err := iface.Write(h, nil, tla.MakeNumber(1)); err != nil {
				return err
			}
			verifYield() // other goroutines may run while the section executes
			switch mode {
			case c17Done:
				return iface.Goto("A.Done")
			case c17Assert:
				return iface.Goto("A.bad")
			case c17ErrorLabel:
				return iface.Goto("A.Error")
			case c17ResError:
				return iface.Goto("A.useR2")
			}
			return iface.Goto("A.l1")
		}},
		{Name: "A.bad", Body: func(iface ArchetypeInterface) error {
			return fmt.Errorf("%w: x = 1", ErrAssertionFailed)
		}},
		{Name: "A.useR2", Body: func(iface ArchetypeInterface) error {
			h, err := iface.RequireArchetypeResourceRef("A.r2")
			if err != nil {
				return err
			}
			_, err = iface.Read(h, nil)
			return err
		}},
		{Name: "A.Error", Body: func(ArchetypeInterface) error { return ErrProcedureFallthrough }},
		{Name: "A.Done", Body: func(ArchetypeInterface) error { return ErrDone }},
	}
	arch := MPCalArchetype{Name: "A", Label: "A.l1", RequiredRefParams: []string{"A.r1", "A.r2"},
		JumpTable: MakeMPCalJumpTable(sections...), ProcTable: MakeMPCalProcTable(), PreAmble: func(ArchetypeInterface) {}}
	ctx := NewMPCalContext(tla.MakeNumber(1), arch, EnsureArchetypeRefParam("r1", r1), EnsureArchetypeRefParam("r2", r2))
	return ctx, []*c17Res{r1, r2}
}

func c17CheckResult(mode int, err error, stopped bool, closeFailed, started bool) {
	if closeFailed && started {
		verifAssert(err != nil && errors.Is(err, errC17Close), "Run reports the failure of a resource to close")
		return
	}
	switch {
	case err == nil:
		verifAssert(mode == c17Done || mode == c17Loop || stopped, "Run reports normal termination only for Done or Stop")
	case errors.Is(err, ErrAssertionFailed):
		verifAssert(mode == c17Assert, "Run reports an assertion failure only when an assertion failed")
	case errors.Is(err, ErrProcedureFallthrough):
		verifAssert(mode == c17ErrorLabel, "Run reports the Error label only when it was reached")
	case errors.Is(err, errC17Resource):
		verifAssert(mode == c17ResError, "Run reports a resource error only when a resource failed")
	default:
		verifFail("Run returned an unexpected error")
	}
}

func HarnessC17_Lifecycle() {
	mode := verifChoose("mode", c17Modes)
	nstop := 1 + verifChoose("nstop", 3)
	commits := 0
	ctx, res := c17Context(mode, &commits)
	runDone := make(chan error, 1)
	stopDone := make(chan int, 8)
	commitsAtStop := make([]int, 0, 8)
	go func() {
		runDone <- ctx.Run()
	}()
	for i := 0; i < nstop; i++ {
		twice := verifNondetBool("twice")
		go func() {
			ctx.Stop()
			commitsAtStop = append(commitsAtStop, commits)
			if twice {
				ctx.Stop()
				commitsAtStop = append(commitsAtStop, commits)
			}
			stopDone <- 1
		}()
	}
	err := <-runDone
	for i := 0; i < nstop; i++ {
		<-stopDone // every Stop call returns (a Stop that never returns shows up as a deadlock)
	}
	closeFailed := (res[0].closeErr != nil && res[0].closes > 0) || (res[1].closeErr != nil && res[1].closes > 0)
	c17CheckResult(mode, err, true, closeFailed, true)
	for _, c := range commitsAtStop {
		verifAssert(c == commits, "no critical section commits after a Stop call has returned")
	}
	verifAssert(res[0].closes == res[1].closes, "all configured resources are treated alike")
	verifAssert(res[0].closes <= 1 && res[1].closes <= 1, "a resource is closed at most once")
	if commits > 0 || err != nil {
		verifAssert(res[0].closes == 1 && res[1].closes == 1, "when a started run ends every configured resource has been closed exactly once")
	}
	verifReach("end")
}

// Stop strictly before Run: the archetype never starts, nothing is closed, Run returns nil, later Stops return.
func HarnessC17_StopBeforeRun() {
	mode := verifChoose("mode", c17Modes)
	commits := 0
	ctx, res := c17Context(mode, &commits)
	ctx.Stop()
	if verifNondetBool("again") {
		ctx.Stop()
	}
	err := ctx.Run()
	verifAssert(err == nil && commits == 0, "a context stopped before Run never runs")
	ctx.Stop()
	verifAssert(res[0].closes == 0 && res[1].closes == 0, "resources of a run that never started are not closed")
	verifReach("end")
}
