//go:build verif

package hashmap

// C05 (map resources): HashMap lookup agrees with Value.Equal.

import "github.com/DistCompiler/pgo/distsys/tla"

func init() {
	verifRegister("HarnessC05_HashMap", HarnessC05_HashMap)
}

func c05Key(tag string, kind int) tla.Value {
	switch kind {
	case 0:
		return tla.MakeNumber(verifNondetInt32(tag))
	case 1:
		return tla.MakeTuple(tla.MakeNumber(verifNondetInt32(tag)), tla.MakeString("x"))
	case 2:
		a, b := tla.MakeNumber(verifNondetInt32(tag)), tla.MakeNumber(verifNondetInt32(tag))
		if verifNondetBool(tag + ".swap") {
			return tla.MakeSet(b, a)
		}
		return tla.MakeSet(a, b)
	}
	return tla.MakeString([]string{"a", "b"}[verifChoose(tag, 2)])
}

func HarnessC05_HashMap() {
	kind := verifChoose("kind", 4)
	h := New[int32]()
	k1, k2, k3 := c05Key("k1", kind), c05Key("k2", kind), c05Key("k3", kind)
	v1, v2 := verifNondetInt32("v1"), verifNondetInt32("v2")
	h.Set(k1, v1)
	h.Set(k2, v2)
	got, ok := h.Get(k3)
	switch {
	case k3.Equal(k2):
		verifAssert(ok && got == v2, "Get finds the latest value stored under an Equal key")
	case k3.Equal(k1):
		verifAssert(ok && got == v1, "Get finds the value stored under an Equal key")
	default:
		verifAssert(!ok, "Get misses a key that is not Equal to any stored key")
	}
	nkeys := 2
	if k1.Equal(k2) {
		nkeys = 1
	}
	verifAssert(len(h.Keys()) == nkeys, "Keys lists each distinct key once")
	h.Clear()
	_, ok = h.Get(k1)
	verifAssert(!ok && len(h.Keys()) == 0, "Clear empties the map")
	verifReach("end")
}
