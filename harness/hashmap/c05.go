//go:build verif

package hashmap

// C05 (map resources): HashMap lookup agrees with Value.Equal.

import "github.com/DistCompiler/pgo/distsys/tla"

func init() {
	verifRegister("HarnessC05_HashMap", HarnessC05_HashMap)
	verifRegister("HarnessC05_HashMapCollide", HarnessC05_HashMapCollide)
}

// Keys of DIFFERENT kinds whose 32-bit hashes really coincide (0, FALSE, {}, the empty function and the empty tuple
// all hash to the hash of 0; 1 and TRUE coincide too): the bucket logic is exercised with concrete colliding keys, so
// a counterexample replays natively (the symbolic harness below can only assume collisions through the uninterpreted
// hash, which no concrete value reproduces).
func c05Pool() []tla.Value {
	return []tla.Value{tla.MakeNumber(0), tla.ModuleFALSE, tla.MakeSet(), tla.MakeRecord(nil), tla.MakeTuple(), tla.MakeNumber(1), tla.ModuleTRUE,
		tla.MakeString("a"), tla.MakeTuple(tla.MakeString("a"))}
}

func HarnessC05_HashMapCollide() {
	pool := c05Pool()
	h := New[int32]()
	const n = 4
	var keys []tla.Value
	var vals []int32
	for i := 0; i < n; i++ {
		k := pool[verifChoose("key", len(pool))]
		v := verifNondetInt32("val")
		h.Set(k, v)
		found := false
		for j := range keys {
			if keys[j].Equal(k) {
				vals[j], found = v, true
			}
		}
		if !found {
			keys, vals = append(keys, k), append(vals, v)
		}
	}
	for _, k := range pool {
		got, ok := h.Get(k)
		want, has := int32(0), false
		for j := range keys {
			if keys[j].Equal(k) {
				want, has = vals[j], true
			}
		}
		verifAssert(ok == has && (!has || got == want), "Get agrees with Equal also among keys whose hashes collide")
	}
	listed := h.Keys()
	verifAssert(len(listed) == len(keys), "Keys lists each distinct key once, also among keys whose hashes collide")
	for _, k := range keys {
		cnt := 0
		for _, l := range listed {
			if l.Equal(k) {
				cnt++
			}
		}
		verifAssert(cnt == 1, "every key that was set is listed by Keys exactly once")
	}
	h.Clear()
	verifAssert(len(h.Keys()) == 0, "Clear empties the map")
	for _, k := range pool {
		_, ok := h.Get(k)
		verifAssert(!ok, "Clear empties the map (no key is found afterwards)")
	}
	verifReach("end")
}

func c05Key(tag string, kind int) tla.Value {
	switch kind {
	case 0:
		return tla.MakeNumber(verifNondetInt32(tag))
	case 1:
		return tla.MakeTuple(tla.MakeNumber(verifNondetInt32(tag)), tla.MakeString("x"))
	case 2:
		a, b := tla.MakeNumber(verifNondetInt32(tag)), tla.MakeNumber(verifNondetInt32(tag))
		if verifNondetBool(tag + ".swap") {
			return tla.MakeSet(b, a)
		}
		return tla.MakeSet(a, b)
	}
	return tla.MakeString([]string{"a", "b"}[verifChoose(tag, 2)])
}

func HarnessC05_HashMap() {
	kind := verifChoose("kind", 4)
	h := New[int32]()
	k1, k2, k3 := c05Key("k1", kind), c05Key("k2", kind), c05Key("k3", kind)
	v1, v2 := verifNondetInt32("v1"), verifNondetInt32("v2")
	h.Set(k1, v1)
	h.Set(k2, v2)
	got, ok := h.Get(k3)
	switch {
	case k3.Equal(k2):
		verifAssert(ok && got == v2, "Get finds the latest value stored under an Equal key")
	case k3.Equal(k1):
		verifAssert(ok && got == v1, "Get finds the value stored under an Equal key")
	default:
		verifAssert(!ok, "Get misses a key that is not Equal to any stored key")
	}
	nkeys := 2
	if k1.Equal(k2) {
		nkeys = 1
	}
	verifAssert(len(h.Keys()) == nkeys, "Keys lists each distinct key once")
	h.Clear()
	_, ok = h.Get(k1)
	verifAssert(!ok && len(h.Keys()) == 0, "Clear empties the map")
	verifReach("end")
}
