//go:build verif

package pbfail

// C02 for the compiler test pair PBFail4_bug125 (an early primary-backup store: either over mailbox reads, nested
// while loops with labels, mapping macros on doubly indexed variables, assertions on received messages): the
// generated AReplica x 2 and AClient run from Init under a deviation-bounded schedule, with and without crash
// exploration; at EVERY step, for the process that moves, the set of committed Go successors over all choice
// resolutions equals the set of successors of the TLA+ action (translated from the pair's expected PlusCal by
// pcal.trans at check time), and assertion failures coincide.

import (
	"github.com/DistCompiler/pgo/distsys"
	"github.com/DistCompiler/pgo/distsys/tla"
)

func init() {
	verifRegister("HarnessPBFail_Run", HarnessPBFail_Run)
	verifRegister("HarnessPBFail_RunDeep", HarnessPBFail_RunDeep)
}

func HarnessPBFail_Run()     { pfRun(30, 1) }
func HarnessPBFail_RunDeep() { pfRun(60, 2) }

func pfRun(steps, budget int) {
	verifUnwind(1000000, false)
	const nrep, ncli, buffer = 2, 1, 2
	explore := verifChoose("exploreFail", 2) == 1
	d := &specDriver{oracle: &specOracle{}}
	cv := map[string]tla.Value{"BUFFER_SIZE": tla.MakeNumber(buffer), "NUM_REPLICAS": tla.MakeNumber(nrep), "NUM_CLIENTS": tla.MakeNumber(ncli),
		"EXPLORE_FAIL": tla.MakeBool(explore), "defaultInitValue": tla.Value{}}
	ec := &specCtx{consts: cv}
	d.eval = ec
	var consts []distsys.MPCalContextConfigFn
	for _, k := range []string{"BUFFER_SIZE", "NUM_REPLICAS", "NUM_CLIENTS", "EXPLORE_FAIL"} {
		consts = append(consts, distsys.DefineConstantValue(k, cv[k]))
	}
	var procs []*specProc
	mk := func(arch distsys.MPCalArchetype, self int32, locals []string, params ...distsys.MPCalContextConfigFn) {
		cfg := append([]distsys.MPCalContextConfigFn{distsys.SetFairnessCounter(d.oracle)}, consts...)
		cfg = append(cfg, distsys.EnsureArchetypeRefParam("net", &specMapped{d: d, name: "network", kind: mmChannel, bound: buffer}),
			distsys.EnsureArchetypeRefParam("fd", &specGlobal{d: d, name: "fd"}))
		ctx := distsys.NewMPCalContext(tla.MakeNumber(self), arch, append(cfg, params...)...)
		distsys.VerifPreRun(ctx)
		procs = append(procs, &specProc{ctx: ctx, arch: arch.Name, self: tla.MakeNumber(self), perProcess: true, pcVar: "pc", locals: locals})
	}
	for i := 1; i <= nrep; i++ {
		mk(AReplica, int32(i), []string{"msg", "respBody", "respTyp", "idx", "repMsg", "rep", "resp"},
			distsys.EnsureArchetypeRefParam("fs", &specGlobal{d: d, name: "fs"}))
	}
	mk(AClient, nrep+1, []string{"req", "resp=resp0", "idx=idx0", "body"})
	st := ec.specSuccessorsOf("Init")[0]
	moved := 0
	d.onStep = func(*specProc, *specState, *specState) { moved++ }
	d.run(procs, st, steps, budget, func(p *specProc, pre *specState, posts []*specState, errs []error) {
		d.specCheckRelation("PBFail4_bug125", p, pre, posts, errs)
	})
	verifAssert(moved > 0, "C02 PBFail4_bug125: the system takes steps")
	verifReach("end")
}
