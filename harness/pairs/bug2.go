//go:build verif

package bug2

// C02 for the compiler test pair bug2_124 (a mapping macro on a variable indexed by two values, net[a, b]): every
// label of the generated AEchoServer from ARBITRARY mailbox contents; the set of committed Go successors equals the
// set of successors of the TLA+ action.

import (
	"github.com/DistCompiler/pgo/distsys"
	"github.com/DistCompiler/pgo/distsys/tla"
)

func init() { verifRegister("HarnessBug2_Labels", HarnessBug2_Labels) }

func HarnessBug2_Labels() {
	verifUnwind(1000000, false)
	const nodes = 2
	buffer := 1 + verifChoose("buffer", 2)
	d := &specDriver{oracle: &specOracle{}}
	ec := &specCtx{consts: map[string]tla.Value{"defaultInitValue": tla.Value{}, "NUM_NODES": tla.MakeNumber(nodes), "BUFFER_SIZE": tla.MakeNumber(int32(buffer))}}
	d.eval = ec
	self := tla.MakeNumber(int32(1 + verifChoose("self", nodes)))
	ctx := distsys.NewMPCalContext(self, AEchoServer, distsys.SetFairnessCounter(d.oracle),
		distsys.DefineConstantValue("NUM_NODES", tla.MakeNumber(nodes)), distsys.DefineConstantValue("BUFFER_SIZE", tla.MakeNumber(int32(buffer))),
		distsys.EnsureArchetypeRefParam("net", &specMapped{d: d, name: "network", kind: mmChannel, bound: buffer}))
	distsys.VerifPreRun(ctx)
	p := &specProc{ctx: ctx, arch: "AEchoServer", self: self, perProcess: true, pcVar: "pc", locals: []string{"msg"}}
	st := ec.specSuccessorsOf("Init")[0]
	msg := func(tag string) tla.Value {
		body := verifNondetInt32(tag + ".body")
		return tla.MakeRecord([]tla.RecordField{
			{Key: tla.MakeString("from"), Value: tla.MakeNumber(int32(1 + verifChoose(tag+".from", nodes)))},
			{Key: tla.MakeString("to"), Value: self},
			{Key: tla.MakeString("body"), Value: tla.MakeNumber(body)},
			{Key: tla.MakeString("typ"), Value: tla.MakeNumber(int32(1 + verifChoose(tag+".typ", 4)))}})
	}
	fill := func(tag string, key tla.Value) {
		var q []tla.Value
		for k, n := 0, verifChoose(tag+".len", buffer+1); k < n; k++ {
			q = append(q, msg(tag))
		}
		st.put("network", specPut(st.get("network"), []tla.Value{key}, tla.MakeTuple(q...)))
	}
	label := []string{"serverLoop", "rcvMsg", "sndMsg"}[verifChoose("label", 3)]
	switch label {
	case "rcvMsg":
		fill("in", tla.MakeTuple(self, tla.MakeNumber(1)))
	case "sndMsg":
		m := msg("msg")
		st.put("msg", specPut(st.get("msg"), []tla.Value{self}, m))
		fill("out", tla.MakeTuple(m.ApplyFunction(tla.MakeString("from")), m.ApplyFunction(tla.MakeString("typ"))))
	}
	st.put("pc", specPut(st.get("pc"), []tla.Value{self}, tla.MakeString(label)))
	posts, errs := d.allSteps(p, st)
	d.specCheckRelation("bug2_124", p, st, posts, errs)
	verifReach("end")
}
