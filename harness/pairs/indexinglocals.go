//go:build verif

package indexinglocals

// C02 for the compiler test pair IndexingLocals (indexed writes to archetype locals, nested EXCEPT): the generated
// ANode runs from Init to Done; at every label the committed Go successor equals the successor of the TLA+ action
// (translated from IndexingLocals.tla.expectpcal by pcal.trans at check time).

import (
	"github.com/DistCompiler/pgo/distsys"
	"github.com/DistCompiler/pgo/distsys/tla"
)

func init() { verifRegister("HarnessIndexingLocals_Run", HarnessIndexingLocals_Run) }

func HarnessIndexingLocals_Run() {
	verifUnwind(1000000, false)
	d := &specDriver{oracle: &specOracle{}}
	ec := &specCtx{consts: map[string]tla.Value{"defaultInitValue": tla.Value{}}}
	d.eval = ec
	self := tla.MakeNumber(1)
	ctx := distsys.NewMPCalContext(self, ANode, distsys.SetFairnessCounter(d.oracle))
	distsys.VerifPreRun(ctx)
	p := &specProc{ctx: ctx, arch: "ANode", self: self, perProcess: true, pcVar: "pc", locals: []string{"log", "p"}}
	st := ec.specSuccessorsOf("Init")[0]
	steps := 0
	d.onStep = func(*specProc, *specState, *specState) { steps++ }
	end := d.run([]*specProc{p}, st, 10, 0, func(p *specProc, pre *specState, posts []*specState, errs []error) {
		d.specCheckRelation("IndexingLocals", p, pre, posts, errs)
	})
	verifAssert(steps == 4 && d.labelOf(p, end) == "Done", "C02 IndexingLocals: the archetype runs its four labels to Done")
	verifReach("end")
}
