//go:build verif

package hello

// C02 for the compiler test pair hello (a higher-order CONSTANT operator used inside a define): the generated AHello
// runs its single label; the committed Go successor equals the successor of the TLA+ action, with MK_HELLO bound to
// the same two-argument operator on both sides (symbolic choice among a few argument-sensitive operators).

import (
	"github.com/DistCompiler/pgo/distsys"
	"github.com/DistCompiler/pgo/distsys/tla"
)

func init() { verifRegister("HarnessHello_Run", HarnessHello_Run) }

func HarnessHello_Run() {
	verifUnwind(1000000, false)
	d := &specDriver{oracle: &specOracle{}}
	// an operator that tells its arguments and their order apart
	ops := []func(a, b tla.Value) tla.Value{
		func(a, b tla.Value) tla.Value { return tla.MakeString(a.AsString() + b.AsString()) },
		func(a, b tla.Value) tla.Value { return tla.MakeTuple(b, a) },
		func(a, b tla.Value) tla.Value { return a },
	}
	op := ops[verifChoose("operator", len(ops))]
	ec := &specCtx{consts: map[string]tla.Value{"defaultInitValue": tla.Value{}},
		constOps: map[string]func(args ...tla.Value) tla.Value{"MK_HELLO": func(args ...tla.Value) tla.Value { return op(args[0], args[1]) }}}
	d.eval = ec
	self := tla.MakeNumber(1)
	ctx := distsys.NewMPCalContext(self, AHello, distsys.SetFairnessCounter(d.oracle),
		distsys.DefineConstantOperator("MK_HELLO", func(a, b tla.Value) tla.Value { return op(a, b) }),
		distsys.EnsureArchetypeRefParam("out", &specGlobal{d: d, name: "out"}))
	distsys.VerifPreRun(ctx)
	p := &specProc{ctx: ctx, arch: "AHello", self: self, perProcess: true, plainLocals: true, pcVar: "pc"}
	st := ec.specSuccessorsOf("Init")[0]
	end := d.run([]*specProc{p}, st, 3, 0, func(p *specProc, pre *specState, posts []*specState, errs []error) {
		d.specCheckRelation("hello", p, pre, posts, errs)
	})
	verifAssert(d.labelOf(p, end) == "Done" && end.get("out").Equal(op(tla.MakeString("hell"), tla.MakeString("o"))), "C02 hello: out ends as MK_HELLO(\"hell\", \"o\")")
	verifReach("end")
}
