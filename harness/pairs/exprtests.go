//go:build verif

package exprtests

// C02 for the compiler's expression test pair (pgo/test/files/general/ExprTests.tla + ExprTests.tla.gotests): every
// TLA+ operator definition Test1..Test14 (except Test2, which SANY rejects: it re-uses bound names) as the Go code generator translated it (ExprTests.go) is evaluated and
// compared with the value that the TLA+ definition itself has (evaluated from SANY's AST by specsim). Definitions with
// parameters get symbolic arguments in a small range; a definition whose evaluation fails in TLA+ (overflow, CASE
// without a matching arm, ...) must fail in Go as well, and vice versa. Both sides share distsys/tla for the meaning
// of the individual operators (C03's subject): what is compared here is the structure the code generator produced -
// nesting of quantifiers and comprehensions, tuple-destructuring bounds, CASE, recursion, short-circuiting.

import (
	"github.com/DistCompiler/pgo/distsys"
	"github.com/DistCompiler/pgo/distsys/tla"
)

func init() { verifRegister("HarnessExprTests_Defs", HarnessExprTests_Defs) }

func etTry(f func() tla.Value) (v tla.Value, failed bool) {
	defer func() {
		if r := recover(); r != nil {
			failed = true
		}
	}()
	return f(), false
}

func etRange(tag string, lo, hi int32) tla.Value {
	v := verifNondetInt32(tag)
	verifAssume(v >= lo && v <= hi)
	return tla.MakeNumber(v)
}

func HarnessExprTests_Defs() {
	verifUnwind(1000000, false)
	iface := distsys.NewMPCalContextWithoutArchetype().IFace()
	ec := &specCtx{consts: map[string]tla.Value{"defaultInitValue": tla.Value{}}}
	st := newSpecState()
	type def struct {
		name string
		goFn func() tla.Value
		args []tla.Value
	}
	x, y := etRange("x", -1, 5), etRange("y", -1, 5)
	foo := etRange("foo", -1, 5)
	defs := []def{
		{"Test1", func() tla.Value { return Test1(iface) }, nil},
		{"Test3", func() tla.Value { return Test3(iface) }, nil},
		{"Test4", func() tla.Value { return Test4(iface) }, nil},
		{"Test5", func() tla.Value { return Test5(iface, x, y) }, []tla.Value{x, y}},
		{"Test6", func() tla.Value { return Test6(iface, foo) }, []tla.Value{foo}},
		{"Test7", func() tla.Value { return Test7(iface, foo) }, []tla.Value{foo}},
		{"Test8", func() tla.Value { return Test8(iface) }, nil},
		{"Test9", func() tla.Value { return Test9(iface) }, nil},
		{"Test10", func() tla.Value { return Test10(iface) }, nil},
		{"Test11", func() tla.Value { return Test11(iface) }, nil},
		{"Test12", func() tla.Value { return Test12(iface) }, nil},
		{"Test13", func() tla.Value { return Test13(iface) }, nil},
		{"Test14", func() tla.Value { return Test14(iface) }, nil},
	}
	d := defs[verifChoose("definition", len(defs))]
	gv, gfail := etTry(d.goFn)
	sv, sfail := etTry(func() tla.Value { return ec.specEvalDef(st, d.name, d.args...) })
	verifAssert(gfail == sfail, "C02 ExprTests "+d.name+": the generated Go fails exactly where evaluating the TLA+ definition fails")
	if !gfail && !sfail {
		verifAssert(specEq(gv, sv), "C02 ExprTests "+d.name+": the generated Go computes the value of the TLA+ definition")
	}
	verifReach("end")
}
