//go:build verif

package nondetexploration

// C02 for the compiler test pair NonDetExploration (with over sets, several with in one label, while loop with a
// nondeterministic choice per iteration): ACoverage and ACoincidence run from Init; AComplex's labels are stepped from
// ARBITRARY values of its locals (i symbolic, mark any subset of TheSet). At every label the set of committed Go
// successors over all choice resolutions equals the set of successors of the TLA+ action.

import (
	"github.com/DistCompiler/pgo/distsys"
	"github.com/DistCompiler/pgo/distsys/tla"
)

func init() { verifRegister("HarnessNonDet_Labels", HarnessNonDet_Labels) }

func HarnessNonDet_Labels() {
	verifUnwind(1000000, false)
	d := &specDriver{oracle: &specOracle{}}
	ec := &specCtx{consts: map[string]tla.Value{"defaultInitValue": tla.Value{}}}
	d.eval = ec
	mk := func(arch distsys.MPCalArchetype, self int32, locals []string) *specProc {
		ctx := distsys.NewMPCalContext(tla.MakeNumber(self), arch, distsys.SetFairnessCounter(d.oracle))
		distsys.VerifPreRun(ctx)
		return &specProc{ctx: ctx, arch: arch.Name, self: tla.MakeNumber(self), perProcess: true, plainLocals: true, pcVar: "pc", locals: locals}
	}
	st := ec.specSuccessorsOf("Init")[0]
	check := func(p *specProc, pre *specState, posts []*specState, errs []error) {
		d.specCheckRelation("NonDetExploration", p, pre, posts, errs)
	}
	switch verifChoose("process", 3) {
	case 0:
		p := mk(ACoverage, 1, nil)
		end := d.run([]*specProc{p}, st, 6, 0, check)
		verifAssert(d.labelOf(p, end) == "Done", "C02 NonDetExploration: ACoverage finds the one enabled resolution of each with")
	case 1:
		p := mk(ACoincidence, 2, nil)
		end := d.run([]*specProc{p}, st, 3, 0, check)
		// no single pair (a, b) satisfies both awaits unless the two withs are resolved independently
		verifAssert(d.labelOf(p, end) == "Done", "C02 NonDetExploration: the two withs of one label are resolved independently")
	case 2:
		p := mk(AComplex, 3, []string{"i", "mark"})
		label := []string{"loop", "lbl1", "lbl2"}[verifChoose("label", 3)]
		i := verifNondetInt32("i")
		verifAssume(i >= 0 && i <= 25)
		st.put("i", tla.MakeNumber(i))
		var m []tla.Value
		for _, e := range []int32{1, 2} {
			if verifChoose("mark", 2) == 1 {
				m = append(m, tla.MakeNumber(e))
			}
		}
		st.put("mark", tla.MakeSet(m...))
		st.put("pc", specPut(st.get("pc"), []tla.Value{p.self}, tla.MakeString(label)))
		posts, errs := d.allSteps(p, st)
		check(p, st, posts, errs)
	}
	verifReach("end")
}
