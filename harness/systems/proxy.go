//go:build verif

package proxy

// C16 / C02 for the proxy: the generated AProxy / AServer / AClient (proxy.go) are stepped one critical section at a
// time over the specification state of proxy.tla (mapping macros ReliableFIFOLink, NetworkToggle, PerfectFD as
// spec-state resources). The checked-in TLA+ translation (the artefact TLC checks, and the one compared here) was
// produced with `fd` mapped via PerfectFD and `input` unmapped; the MPCal text above it has since been edited to
// PracticalFD / Requests (the --algorithm block shows those expansions), so the translation is what is followed.
//
//   HarnessProxy_Step : every label of the three archetypes from ARBITRARY typed states (mailboxes of <= 2 arbitrary
//                       messages, arbitrary locals and detector state): the set of committed Go successors over every
//                       choice resolution equals the set of successors of the TLA+ action; assertion failures coincide.
//   HarnessProxy_Run  : bounded runs from Init with a PERFECT failure detector, 2 servers, 1 client, crash exploration:
//                       no assertion fails, every Go step is a step of the specification, and the proxy answers FAIL
//                       only when every backend has failed; every answer carries the id of the request.

import (
	"errors"

	"github.com/DistCompiler/pgo/distsys"
	"github.com/DistCompiler/pgo/distsys/tla"
)

func init() {
	verifRegister("HarnessProxy_Step", HarnessProxy_Step)
	verifRegister("HarnessProxy_Run", HarnessProxy_Run)
	verifRegister("HarnessProxy_RunDeep", HarnessProxy_RunDeep)
}

type pxSys struct {
	d          *specDriver
	ec         *specCtx
	procs      []*specProc
	nsrv, ncli int
	proxyID    int32
}

var pxS = tla.MakeString

func pxNum(n int32) tla.Value { return tla.MakeNumber(n) }

func pxNew(nsrv, ncli int, exploreFail, perfectFD bool) *pxSys {
	d := &specDriver{oracle: &specOracle{}}
	cv := map[string]tla.Value{"NUM_SERVERS": pxNum(int32(nsrv)), "NUM_CLIENTS": pxNum(int32(ncli)),
		"EXPLORE_FAIL": tla.MakeBool(exploreFail), "CLIENT_RUN": tla.ModuleTRUE, "defaultInitValue": tla.Value{}}
	ec := &specCtx{consts: cv}
	d.eval = ec
	var consts []distsys.MPCalContextConfigFn
	for _, k := range []string{"NUM_SERVERS", "NUM_CLIENTS", "EXPLORE_FAIL", "CLIENT_RUN"} {
		consts = append(consts, distsys.DefineConstantValue(k, cv[k]))
	}
	s := &pxSys{d: d, ec: ec, nsrv: nsrv, ncli: ncli, proxyID: int32(nsrv + ncli + 1)}
	net := func() distsys.ArchetypeResource { return &specMapped{d: d, name: "network", kind: mmFIFOLink} }
	fd := func() distsys.ArchetypeResource {
		if perfectFD {
			return &specGlobal{d: d, name: "fd"}
		}
		return &specMapped{d: d, name: "fd", kind: mmPracticalFD}
	}
	mk := func(arch distsys.MPCalArchetype, self int32, plain bool, locals []string, params ...distsys.MPCalContextConfigFn) {
		cfg := append([]distsys.MPCalContextConfigFn{distsys.SetFairnessCounter(d.oracle)}, consts...)
		ctx := distsys.NewMPCalContext(pxNum(self), arch, append(cfg, params...)...)
		distsys.VerifPreRun(ctx)
		s.procs = append(s.procs, &specProc{ctx: ctx, arch: arch.Name, self: pxNum(self), perProcess: true, plainLocals: plain, pcVar: "pc", locals: locals})
	}
	mk(AProxy, s.proxyID, true, []string{"msg", "proxyMsg", "idx", "resp", "proxyResp"},
		distsys.EnsureArchetypeRefParam("net", net()), distsys.EnsureArchetypeRefParam("fd", fd()))
	for i := 1; i <= nsrv; i++ {
		mk(AServer, int32(i), false, []string{"msg=msg0", "resp=resp0"},
			distsys.EnsureArchetypeRefParam("net", net()),
			distsys.EnsureArchetypeRefParam("netEnabled", &specMapped{d: d, name: "network", kind: mmNetToggle}),
			distsys.EnsureArchetypeRefParam("fd", fd()))
	}
	for i := nsrv + 1; i <= nsrv+ncli; i++ {
		mk(AClient, int32(i), false, []string{"req", "resp=resp1", "reqId"},
			distsys.EnsureArchetypeRefParam("net", net()),
			distsys.EnsureArchetypeRefParam("input", &specGlobal{d: d, name: "input", path: []tla.Value{pxNum(int32(i))}}),
			distsys.EnsureArchetypeRefParam("output", &specGlobal{d: d, name: "output"}))
	}
	return s
}

func pxRange(tag string, lo, hi int32) int32 {
	v := verifNondetInt32(tag)
	verifAssume(v >= lo && v <= hi)
	return v
}

// an arbitrary message record: addresses within NODE_SET, id within the bound, any of the four types, any small body
// (the sender is a concrete choice where the label uses it as a mailbox address: function application needs the hash
// of its argument, and a symbolic hash would be an uninterpreted term at every node of the map's trie)
func (s *pxSys) msg(tag string, concreteFrom bool) tla.Value {
	var from int32
	if concreteFrom {
		from = int32(1 + verifChoose(tag+".from", int(s.proxyID)))
	} else {
		from = pxRange(tag+".from", 1, s.proxyID)
	}
	return tla.MakeRecord([]tla.RecordField{
		{Key: pxS("from"), Value: pxNum(from)},
		{Key: pxS("to"), Value: pxNum(pxRange(tag+".to", 1, s.proxyID))},
		{Key: pxS("body"), Value: pxNum(pxRange(tag+".body", 0, 100))},
		{Key: pxS("id"), Value: pxNum(pxRange(tag+".id", 0, 1))},
		{Key: pxS("typ"), Value: pxNum(pxRange(tag+".typ", 1, 4))},
	})
}

func (s *pxSys) link(st *specState, tag string, id, typ int32, maxLen int) {
	var q []tla.Value
	for k, n := 0, verifChoose(tag+".len", maxLen+1); k < n; k++ {
		q = append(q, s.msg(tag, false))
	}
	key := tla.MakeTuple(pxNum(id), pxNum(typ))
	st.put("network", specPut(st.get("network"), []tla.Value{key}, specLink(tla.MakeTuple(q...), tla.MakeBool(verifNondetBool(tag+".enabled")))))
}

func (s *pxSys) relation(p *specProc, pre *specState, posts []*specState, errs []error, both bool) {
	label := s.d.labelOf(p, pre)
	want := s.ec.specSuccessors(pre, label, p.self)
	wantAssert := s.ec.assertFailed
	for _, e := range errs {
		verifAssert(errors.Is(e, distsys.ErrAssertionFailed) && wantAssert, "C02 proxy "+label+": Go fails only with an assertion failure, and only where the specification's assertion fails")
	}
	for _, g := range posts {
		verifAssert(specContains(want, g), "C02 proxy "+label+": every committed Go step is a step of the TLA+ action")
	}
	if both {
		verifAssert(!wantAssert || len(errs) > 0, "C02 proxy "+label+": where the specification's assertion fails, the Go code fails")
		for _, w := range want {
			verifAssert(specContains(posts, w), "C02 proxy "+label+": every step of the TLA+ action is taken by the Go code under some choice resolution")
		}
	}
}

const (
	pxREQ = iota + 1
	pxRESP
	pxPROXYREQ
	pxPROXYRESP
)

func HarnessProxy_Step() {
	verifUnwind(1000000, false)
	nsrv, ncli := 2, 1
	s := pxNew(nsrv, ncli, true, true)
	st := s.ec.specSuccessorsOf("Init")[0]
	who := verifChoose("process", 3) // 0 proxy, 1 server 1, 2 client
	p := s.procs[[]int{0, 1, 1 + nsrv}[who]]
	var label string
	setLocal := func(name string, v tla.Value) {
		if who == 0 {
			st.put(name, v)
		} else {
			st.put(name, specPut(st.get(name), []tla.Value{p.self}, v))
		}
	}
	fds := st.get("fd")
	for i := int32(1); i <= s.proxyID; i++ {
		fds = specPut(fds, []tla.Value{pxNum(i)}, tla.MakeBool(verifNondetBool("fd")))
	}
	st.put("fd", fds)
	switch who {
	case 0:
		label = []string{"proxyLoop", "serversLoop", "proxyRcvMsg", "sendMsgToClient"}[verifChoose("label", 4)]
		idx := int32(1 + verifChoose("idx", nsrv+1))
		if label == "proxyRcvMsg" {
			verifAssume(idx <= int32(nsrv)) // proxyRcvMsg is only entered from inside the servers loop
		}
		switch label {
		case "proxyLoop":
			s.link(st, "in", s.proxyID, pxREQ, 2)
		case "serversLoop":
			setLocal("msg", s.msg("msg", false))
			setLocal("idx", pxNum(idx))
			if idx <= int32(nsrv) {
				s.link(st, "out", idx, pxPROXYREQ, 1)
			}
		case "proxyRcvMsg":
			setLocal("msg", s.msg("msg", false))
			setLocal("idx", pxNum(idx))
			setLocal("proxyResp", s.msg("proxyResp", false))
			s.link(st, "in", s.proxyID, pxPROXYRESP, 2)
		case "sendMsgToClient":
			m := s.msg("msg", true)
			setLocal("msg", m)
			setLocal("proxyResp", s.msg("proxyResp", false))
			setLocal("idx", pxNum(idx))
			s.link(st, "out", m.ApplyFunction(pxS("from")).AsNumber(), pxRESP, 1)
		}
	case 1:
		label = []string{"serverLoop", "serverRcvMsg", "serverSendMsg", "failLabel"}[verifChoose("label", 4)]
		switch label {
		case "serverLoop":
			s.link(st, "own", 1, pxPROXYREQ, 1)
		case "serverRcvMsg":
			s.link(st, "own", 1, pxPROXYREQ, 2)
		case "serverSendMsg":
			m := s.msg("msg", true)
			setLocal("msg0", m)
			s.link(st, "own", 1, pxPROXYREQ, 1)
			s.link(st, "out", m.ApplyFunction(pxS("from")).AsNumber(), pxPROXYRESP, 1)
		}
	case 2:
		label = []string{"clientLoop", "clientRcvResp"}[verifChoose("label", 2)]
		setLocal("reqId", pxNum(pxRange("reqId", 0, 1)))
		setLocal("input", pxNum(pxRange("input", 0, 5)))
		switch label {
		case "clientLoop":
			s.link(st, "out", s.proxyID, pxREQ, 1)
		case "clientRcvResp":
			s.link(st, "in", p.self.AsNumber(), pxRESP, 2)
		}
	}
	st.put("pc", specPut(st.get("pc"), []tla.Value{p.self}, pxS(label)))
	posts, errs := s.d.allSteps(p, st)
	s.relation(p, st, posts, errs, true)
	verifReach("end")
}

func HarnessProxy_Run()     { pxRun(14, 2) }
func HarnessProxy_RunDeep() { pxRun(40, 3) }

func pxRun(steps, budget int) {
	verifUnwind(1000000, false)
	nsrv, ncli := 2, 1
	s := pxNew(nsrv, ncli, true, true)
	st := s.ec.specSuccessorsOf("Init")[0]
	crashed := func(st *specState, i int32) bool {
		l := st.get("pc").ApplyFunction(pxNum(i)).AsString()
		return l == "failLabel" || l == "Done"
	}
	s.d.onStep = func(p *specProc, pre, post *specState) {
		label := s.d.labelOf(p, pre)
		switch label {
		case "sendMsgToClient":
			resp := post.get("resp")
			msg := pre.get("msg")
			verifAssert(resp.ApplyFunction(pxS("id")).Equal(msg.ApplyFunction(pxS("id"))) && resp.ApplyFunction(pxS("to")).Equal(msg.ApplyFunction(pxS("from"))),
				"C16 proxy: the answer goes to the requesting client and carries the id of its request")
			if resp.ApplyFunction(pxS("body")).AsNumber() == 100 {
				verifReach("fail-answer")
				for i := int32(1); i <= int32(nsrv); i++ {
					verifAssert(crashed(pre, i), "C16 proxy: with a perfect failure detector the proxy reports failure only when every backend has failed")
				}
			} else {
				b := resp.ApplyFunction(pxS("body")).AsNumber()
				verifAssert(b >= 1 && b <= int32(nsrv), "C16 proxy: a successful answer is the answer of one backend")
			}
		case "serversLoop", "proxyRcvMsg":
			// the perfect detector: a backend is abandoned only after it has failed
			i0, i1 := pre.get("idx").AsNumber(), post.get("idx").AsNumber()
			if i1 == i0+1 {
				verifAssert(crashed(pre, i0), "C16 proxy: with a perfect failure detector a backend is skipped only after it has failed")
			}
		case "clientRcvResp":
			out := post.get("output")
			verifAssert(out.ApplyFunction(pxS("id")).Equal(pre.get("reqId").ApplyFunction(p.self)), "C16 proxy: the client's answer matches its outstanding request")
		}
	}
	s.d.run(s.procs, st, steps, budget, func(p *specProc, pre *specState, posts []*specState, errs []error) {
		verifAssert(len(errs) == 0, "C16 proxy: no assertion written in the specification fails")
		s.relation(p, pre, posts, errs, false)
	})
	verifReach("end")
}
