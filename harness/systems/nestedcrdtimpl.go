//go:build verif

package nestedcrdtimpl

// C16 / C02 for the CRDT resource written as an archetype (ACRDTResource, NestedCRDTImpl.go): its single label
// receiveReq (request handling / merge of a received state / timed broadcast) is stepped over the spec state of
// NestedCRDTImpl.tla (mapping macros TCPChannel and SingleCellChannel as spec-state resources) from ARBITRARY typed
// states, with the grow-only-counter instantiation of the constant operators that the shipped test uses
// (COMBINE_FN = pointwise maximum, UPDATE_FN = add at self, VIEW_FN = sum):
//   - the set of committed Go successors over every choice resolution equals the successors of the TLA+ action
//   - MonotonicState (the spec's action property): no component of the replica's state ever decreases
//   - the value acknowledged to a read is the view of the state the critical section works on

import (
	"errors"

	"github.com/DistCompiler/pgo/distsys"
	"github.com/DistCompiler/pgo/distsys/resources"
	"github.com/DistCompiler/pgo/distsys/tla"
)

func init() {
	verifRegister("HarnessNested_Step", HarnessNested_Step)
}

var ncS = tla.MakeString

func ncNum(n int32) tla.Value { return tla.MakeNumber(n) }

func ncCombine(args ...tla.Value) tla.Value {
	out := args[0]
	it := args[1].AsFunction().Iterator()
	for !it.Done() {
		k, v, _ := it.Next()
		if cur, ok := out.AsFunction().Get(k); !ok || v.AsNumber() > cur.AsNumber() {
			out = tla.MakeRecordFromMap(out.AsFunction().Set(k, v))
		}
	}
	return out
}

func ncUpdate(args ...tla.Value) tla.Value {
	self, state, v := args[0], args[1], args[2]
	orig := tla.ModuleZero
	if o, ok := state.AsFunction().Get(self); ok {
		orig = o
	}
	return tla.MakeRecordFromMap(state.AsFunction().Set(self, tla.ModulePlusSymbol(orig, v)))
}

func ncView(args ...tla.Value) tla.Value {
	total := tla.ModuleZero
	it := args[0].AsFunction().Iterator()
	for !it.Done() {
		_, c, _ := it.Next()
		total = tla.ModulePlusSymbol(total, c)
	}
	return total
}

func ncRange(tag string, lo, hi int32) int32 {
	v := verifNondetInt32(tag)
	verifAssume(v >= lo && v <= hi)
	return v
}

// a replica state: a function from replica ids (any subset of the two) to counts
func ncState(tag string) tla.Value {
	var f []tla.RecordField
	for _, id := range []int32{3, 4} {
		if verifChoose(tag+".has", 2) == 1 {
			f = append(f, tla.RecordField{Key: ncNum(id), Value: ncNum(ncRange(tag+".count", 0, 1000))})
		}
	}
	return tla.MakeRecord(f)
}

func HarnessNested_Step() {
	verifUnwind(1000000, false)
	const buffer = 2
	empty := ncS("empty")
	self, peer := ncNum(3), ncNum(4)
	d := &specDriver{oracle: &specOracle{}}
	cv := map[string]tla.Value{"BUFFER_SIZE": ncNum(buffer), "ZERO_VALUE": tla.MakeRecord(nil), "EMPTY_CELL": empty, "NUM_OPS": ncNum(2),
		"NODE_IDS": tla.MakeSet(ncNum(1), ncNum(2)), "defaultInitValue": tla.Value{},
		"READ_REQ": ncS("read_req"), "WRITE_REQ": ncS("write_req"), "ABORT_REQ": ncS("abort_req"), "PRECOMMIT_REQ": ncS("precommit_req"), "COMMIT_REQ": ncS("commit_req"),
		"READ_ACK": ncS("read_ack"), "WRITE_ACK": ncS("write_ack"), "ABORT_ACK": ncS("abort_ack"), "PRECOMMIT_ACK": ncS("precommit_ack"), "COMMIT_ACK": ncS("commit_ack")}
	ec := &specCtx{consts: cv, constOps: map[string]func(args ...tla.Value) tla.Value{"COMBINE_FN": ncCombine, "UPDATE_FN": ncUpdate, "VIEW_FN": ncView}}
	d.eval = ec
	cfg := []distsys.MPCalContextConfigFn{distsys.SetFairnessCounter(d.oracle), resources.NestedArchetypeConstantDefs,
		distsys.DefineConstantValue("ZERO_VALUE", cv["ZERO_VALUE"]), distsys.DefineConstantValue("BUFFER_SIZE", cv["BUFFER_SIZE"]),
		distsys.DefineConstantValue("EMPTY_CELL", empty), distsys.DefineConstantValue("NUM_OPS", cv["NUM_OPS"]), distsys.DefineConstantValue("NODE_IDS", cv["NODE_IDS"]),
		distsys.DefineConstantOperator("COMBINE_FN", func(a, b tla.Value) tla.Value { return ncCombine(a, b) }),
		distsys.DefineConstantOperator("UPDATE_FN", func(a, b, c tla.Value) tla.Value { return ncUpdate(a, b, c) }),
		distsys.DefineConstantOperator("VIEW_FN", func(a tla.Value) tla.Value { return ncView(a) }),
		distsys.EnsureArchetypeRefParam("in", &specMapped{d: d, name: "in", kind: mmCell, choices: empty}),
		distsys.EnsureArchetypeRefParam("out", &specMapped{d: d, name: "out", kind: mmCell, choices: empty}),
		distsys.EnsureArchetypeRefParam("network", &specMapped{d: d, name: "network", kind: mmChannel, bound: buffer}),
		distsys.EnsureArchetypeRefParam("peers", &specGlobal{d: d, name: "peers", path: []tla.Value{self}}),
		distsys.EnsureArchetypeRefParam("timer", &specGlobal{d: d, name: "timer", path: []tla.Value{self}})}
	ctx := distsys.NewMPCalContext(self, ACRDTResource, cfg...)
	distsys.VerifPreRun(ctx)
	p := &specProc{ctx: ctx, arch: "ACRDTResource", self: self, perProcess: true, pcVar: "pc",
		locals: []string{"remainingPeersToUpdate", "req", "criticalSectionInProgress", "state", "readState"}}

	st := ec.specSuccessorsOf("Init")[0]
	put := func(name string, v tla.Value) { st.put(name, specPut(st.get(name), []tla.Value{self}, v)) }
	// the label is an either over three independent alternatives; each is exercised from arbitrary values of the
	// variables it reads (focus 0..2) and once with all three enabled at the same time (focus 3)
	focus := verifChoose("focus", 4)
	put("state", ncState("state"))
	if focus == 0 || focus == 3 {
		reqs := []string{"read_req", "write_req", "abort_req", "precommit_req", "commit_req", "bogus_req"}
		switch k := verifChoose("in", len(reqs)); {
		case reqs[k] == "write_req":
			put("in", tla.MakeRecord([]tla.RecordField{{Key: ncS("tpe"), Value: ncS("write_req")}, {Key: ncS("value"), Value: ncNum(ncRange("in.value", 0, 1000))}}))
		default:
			put("in", tla.MakeRecord([]tla.RecordField{{Key: ncS("tpe"), Value: ncS(reqs[k])}}))
		}
		if focus == 0 {
			if verifChoose("in.empty", 2) == 1 {
				put("in", empty)
			}
			if verifChoose("out.full", 2) == 1 {
				put("out", tla.MakeRecord([]tla.RecordField{{Key: ncS("tpe"), Value: ncS("read_ack")}, {Key: ncS("value"), Value: ncNum(0)}}))
			}
			put("criticalSectionInProgress", tla.MakeBool(verifChoose("inCS", 2) == 1))
			put("readState", ncState("readState"))
		}
	}
	if focus == 1 || focus == 3 {
		q := []tla.Value{ncState("net")}
		if focus == 1 && verifChoose("net.second", 2) == 1 {
			q = append(q, tla.MakeRecord(nil))
		}
		put("network", tla.MakeTuple(q...))
	}
	if focus == 2 || focus == 3 {
		put("remainingPeersToUpdate", tla.MakeSet(peer))
		if focus == 2 {
			if verifChoose("remaining.empty", 2) == 1 {
				put("remainingPeersToUpdate", tla.MakeSet())
			}
			var pq []tla.Value
			for k, n := 0, verifChoose("peernet.len", buffer+1); k < n; k++ {
				pq = append(pq, tla.MakeRecord(nil))
			}
			st.put("network", specPut(st.get("network"), []tla.Value{peer}, tla.MakeTuple(pq...)))
			put("timer", tla.MakeBool(verifChoose("timer", 2) == 1))
		}
	}

	want := ec.specSuccessors(st, "receiveReq", self)
	wantAssert := ec.assertFailed
	posts, errs := d.allSteps(p, st)
	for _, e := range errs {
		verifAssert(errors.Is(e, distsys.ErrAssertionFailed) && wantAssert, "C02 nestedcrdtimpl receiveReq: Go fails only with an assertion failure, and only where the specification's assertion fails")
	}
	verifAssert(!wantAssert || len(errs) > 0, "C02 nestedcrdtimpl receiveReq: where the specification's assertion fails, the Go code fails")
	pre := st.get("state").ApplyFunction(self)
	for _, g := range posts {
		verifAssert(specContains(want, g), "C02 nestedcrdtimpl receiveReq: every committed Go step is a step of the TLA+ action")
		post := g.get("state").ApplyFunction(self)
		it := pre.AsFunction().Iterator()
		for !it.Done() {
			k, v, _ := it.Next()
			nv, ok := post.AsFunction().Get(k)
			verifAssert(ok && v.AsNumber() <= nv.AsNumber(), "C16 nestedcrdtimpl MonotonicState: no component of a replica's state ever decreases")
		}
		if o := g.get("out").ApplyFunction(self); !o.Equal(st.get("out").ApplyFunction(self)) && o.ApplyFunction(ncS("tpe")).Equal(ncS("read_ack")) {
			verifAssert(o.ApplyFunction(ncS("value")).Equal(ncView(g.get("readState").ApplyFunction(self))), "C16 nestedcrdtimpl: a read is answered with the view of the state the critical section works on")
		}
	}
	for _, w := range want {
		verifAssert(specContains(posts, w), "C02 nestedcrdtimpl receiveReq: every step of the TLA+ action is taken by the Go code under some choice resolution")
	}
	verifReach("end")
}
