//go:build verif

package raftkvs

// C08 (per-step Raft lemmas) and C02 (label correspondence) for the generated Raft key-value store.
// The REAL generated label bodies of AServer, AServerRequestVote, AServerAppendEntries, AServerAdvanceCommitIndex and
// AServerBecomeLeader (raftkvs.go) of one server i run one critical section at a time over the specification state
// of raftkvs.tla (all mapping macros as spec-state resources), from ARBITRARY typed pre-states: state, terms, vote
// sets, indices symbolic; logs of <= 2 entries with symbolic terms; an arbitrary incoming message.

import (
	"errors"

	"github.com/DistCompiler/pgo/distsys"
	"github.com/DistCompiler/pgo/distsys/tla"
)

func init() {
	verifRegister("HarnessRaft_HandleMsg", HarnessRaft_HandleMsg)
	verifRegister("HarnessRaft_Roles", HarnessRaft_Roles)
	verifRegister("HarnessRaft_HandleMsgDeep", HarnessRaft_HandleMsgDeep)
	verifRegister("HarnessRaft_RolesDeep", HarnessRaft_RolesDeep)
	verifRegister("HarnessRaft_ClientApply", HarnessRaft_ClientApply)
}

var rfClientID int32 = 19 // 6*NumServers+1, set by rfNew
var rfMaxLog = 2

type rfSys struct {
	d     *specDriver
	ec    *specCtx
	n     int
	self  int32
	procs map[string]*specProc
}

var rfS = tla.MakeString

func rfRec(kv ...tla.Value) tla.Value {
	var f []tla.RecordField
	for i := 0; i+1 < len(kv); i += 2 {
		f = append(f, tla.RecordField{Key: kv[i], Value: kv[i+1]})
	}
	return tla.MakeRecord(f)
}

func rfNum(n int32) tla.Value { return tla.MakeNumber(n) }

func rfNew(n int, self int32) *rfSys {
	d := &specDriver{oracle: &specOracle{}}
	cv := map[string]tla.Value{
		"ExploreFail": tla.ModuleFALSE, "Debug": tla.ModuleFALSE, "NumServers": rfNum(int32(n)), "NumClients": rfNum(1),
		"BufferSize": rfNum(4), "MaxTerm": rfNum(5), "MaxCommitIndex": rfNum(5), "MaxNodeFail": rfNum(0),
		"LogConcat": logConcat, "LogPop": logPop, "LeaderTimeoutReset": tla.ModuleTRUE, "NumRequests": rfNum(1),
		"AllStrings": tla.MakeSet(rfS("k")), "defaultInitValue": tla.Value{},
	}
	ec := &specCtx{consts: cv}
	d.eval = ec
	var consts []distsys.MPCalContextConfigFn
	for _, k := range []string{"ExploreFail", "Debug", "NumServers", "NumClients", "BufferSize", "MaxTerm", "MaxCommitIndex", "MaxNodeFail", "LogConcat", "LogPop", "LeaderTimeoutReset", "NumRequests", "AllStrings"} {
		consts = append(consts, distsys.DefineConstantValue(k, cv[k]))
	}
	rfClientID = int32(6*n + 1)
	s := &rfSys{d: d, ec: ec, n: n, self: self, procs: map[string]*specProc{}}
	g := func(name string) distsys.ArchetypeResource { return &specGlobal{d: d, name: name} }
	mk := func(key string, arch distsys.MPCalArchetype, id int32, locals []string) {
		cfg := append([]distsys.MPCalContextConfigFn{distsys.SetFairnessCounter(d.oracle)}, consts...)
		cfg = append(cfg,
			distsys.EnsureArchetypeValueParam("srvId", rfNum(self)),
			distsys.EnsureArchetypeRefParam("net", &specMapped{d: d, name: "network", kind: mmBagFIFO, bound: 4}),
			distsys.EnsureArchetypeRefParam("netLen", &specMapped{d: d, name: "network", kind: mmBagLen}),
			distsys.EnsureArchetypeRefParam("netEnabled", &specMapped{d: d, name: "network", kind: mmNetToggle}),
			distsys.EnsureArchetypeRefParam("fd", &specMapped{d: d, name: "fd", kind: mmEitherBool}),
			distsys.EnsureArchetypeRefParam("state", g("state")), distsys.EnsureArchetypeRefParam("currentTerm", g("currentTerm")),
			distsys.EnsureArchetypeRefParam("log", g("log")),
			distsys.EnsureArchetypeRefParam("plog", &specMapped{d: d, name: "plog", kind: mmPersistentLog, logConcat: logConcat, logPop: logPop}),
			distsys.EnsureArchetypeRefParam("commitIndex", g("commitIndex")), distsys.EnsureArchetypeRefParam("nextIndex", g("nextIndex")),
			distsys.EnsureArchetypeRefParam("matchIndex", g("matchIndex")), distsys.EnsureArchetypeRefParam("votedFor", g("votedFor")),
			distsys.EnsureArchetypeRefParam("votesResponded", g("votesResponded")), distsys.EnsureArchetypeRefParam("votesGranted", g("votesGranted")),
			distsys.EnsureArchetypeRefParam("leader", g("leader")), distsys.EnsureArchetypeRefParam("sm", g("sm")), distsys.EnsureArchetypeRefParam("smDomain", g("smDomain")),
			distsys.EnsureArchetypeRefParam("leaderTimeout", &specMapped{d: d, name: "leaderTimeout", kind: mmEitherBool}),
			distsys.EnsureArchetypeRefParam("appendEntriesCh", &specMapped{d: d, name: "appendEntriesCh", kind: mmChanOrTrue}),
			distsys.EnsureArchetypeRefParam("becomeLeaderCh", &specMapped{d: d, name: "becomeLeaderCh", kind: mmChanOrTrue}))
		ctx := distsys.NewMPCalContext(rfNum(id), arch, cfg...)
		distsys.VerifPreRun(ctx)
		s.procs[key] = &specProc{ctx: ctx, arch: arch.Name, self: rfNum(id), perProcess: true, pcVar: "pc", locals: locals}
	}
	N := int32(n)
	mk("s0", AServer, self, []string{"idx", "m", "srvId"})
	mk("s1", AServerRequestVote, self+N, []string{"idx=idx0", "srvId=srvId0"})
	mk("s2", AServerAppendEntries, self+2*N, []string{"idx=idx1", "srvId=srvId1"})
	mk("s3", AServerAdvanceCommitIndex, self+3*N, []string{"newCommitIndex", "srvId=srvId2"})
	mk("s4", AServerBecomeLeader, self+4*N, []string{"srvId=srvId3"})
	// the client
	{
		cid := rfNum(rfClientID)
		allReqs := ec.specEvalDef(ec.specSuccessorsOf("Init")[0], "AllReqs")
		cfg := append([]distsys.MPCalContextConfigFn{distsys.SetFairnessCounter(d.oracle)}, consts...)
		cfg = append(cfg,
			distsys.EnsureArchetypeRefParam("net", &specMapped{d: d, name: "network", kind: mmBagFIFO, bound: 4}),
			distsys.EnsureArchetypeRefParam("netLen", &specMapped{d: d, name: "network", kind: mmBagLen}),
			distsys.EnsureArchetypeRefParam("fd", &specMapped{d: d, name: "fd", kind: mmEitherBool}),
			distsys.EnsureArchetypeRefParam("reqCh", &specMapped{d: d, name: "reqCh", kind: mmOneOf, choices: allReqs}),
			distsys.EnsureArchetypeRefParam("respCh", g("respCh")),
			distsys.EnsureArchetypeRefParam("timeout", &specMapped{d: d, name: "timeout", kind: mmEitherBool, path: []tla.Value{cid}}))
		ctx := distsys.NewMPCalContext(cid, AClient, cfg...)
		distsys.VerifPreRun(ctx)
		s.procs["c0"] = &specProc{ctx: ctx, arch: "AClient", self: cid, perProcess: true, pcVar: "pc", locals: []string{"leader=leader0", "req", "resp", "reqIdx"}}
	}
	return s
}

func rfRange(tag string, lo, hi int32) int32 {
	v := verifNondetInt32(tag)
	verifAssume(v >= lo && v <= hi)
	return v
}

func rfCmd(tag string) tla.Value {
	// a client command: put k v1 / get k
	if verifChoose(tag+".kind", 2) == 0 {
		return rfRec(rfS("idx"), rfNum(1), rfS("type"), rfS("put"), rfS("key"), rfS("k"), rfS("value"), rfS("v1"))
	}
	return rfRec(rfS("idx"), rfNum(1), rfS("type"), rfS("get"), rfS("key"), rfS("k"))
}

func rfEntry(tag string, maxTerm int32) tla.Value {
	return rfRec(rfS("term"), rfNum(rfRange(tag+".term", 1, maxTerm)), rfS("cmd"), rfCmd(tag), rfS("client"), rfNum(rfClientID))
}

func rfSubset(tag string, n int) tla.Value {
	var elems []tla.Value
	for k := 1; k <= n; k++ {
		if verifChoose(tag, 2) == 1 {
			elems = append(elems, rfNum(int32(k)))
		}
	}
	return tla.MakeSet(elems...)
}

// arbitrary typed state of server i. Only the parts named in `vary` (the variables the label under test reads) are
// arbitrary; the others keep their initial values - the step cannot depend on them.
func (s *rfSys) arbitrary(vary string) (*specState, int32) {
	has := func(k string) bool {
		for i := 0; i+len(k) <= len(vary); i++ {
			if vary[i:i+len(k)] == k {
				return true
			}
		}
		return false
	}
	st := s.ec.specSuccessorsOf("Init")[0]
	i := rfNum(s.self)
	n := s.n
	put := func(name string, v tla.Value) { st.put(name, specPut(st.get(name), []tla.Value{i}, v)) }
	term := rfRange("currentTerm", 1, 3)
	put("state", rfS([]string{"follower", "candidate", "leader"}[verifChoose("state", 3)]))
	put("currentTerm", rfNum(term))
	var log []tla.Value
	if has("log") {
		for k, l := 0, verifChoose("loglen", rfMaxLog+1); k < l; k++ {
			log = append(log, rfEntry("log", term))
		}
		// terms in a log never decrease (true of every Raft log; keeps LastTerm meaningful)
		for k := 1; k < len(log); k++ {
			verifAssume(log[k-1].ApplyFunction(rfS("term")).AsNumber() <= log[k].ApplyFunction(rfS("term")).AsNumber())
		}
		put("log", tla.MakeTuple(log...))
		put("plog", tla.MakeTuple(log...))
	}
	if has("commit") {
		put("commitIndex", rfNum(rfRange("commitIndex", 0, int32(len(log)))))
	}
	if has("votedFor") {
		put("votedFor", rfNum(rfRange("votedFor", 0, int32(n))))
	}
	if has("votes") {
		put("votesResponded", rfSubset("votesResponded", n))
		put("votesGranted", rfSubset("votesGranted", n))
	}
	if has("leader") {
		put("leader", rfNum(rfRange("leader", 0, int32(n))))
	}
	if has("index") {
		var ni, mi []tla.RecordField
		for k := 1; k <= n; k++ {
			ni = append(ni, tla.RecordField{Key: rfNum(int32(k)), Value: rfNum(rfRange("nextIndex", 1, 3))})
			mi = append(mi, tla.RecordField{Key: rfNum(int32(k)), Value: rfNum(rfRange("matchIndex", 0, 2))})
		}
		put("nextIndex", tla.MakeRecord(ni))
		put("matchIndex", tla.MakeRecord(mi))
	}
	if has("sm") && verifChoose("smHasKey", 2) == 1 {
		put("sm", rfRec(rfS("k"), rfS("v0")))
		put("smDomain", tla.MakeSet(rfS("k")))
	}
	return st, term
}

func (s *rfSys) setPC(st *specState, key, label string) {
	p := s.procs[key]
	st.put("pc", specPut(st.get("pc"), []tla.Value{p.self}, rfS(label)))
}

func rfGet(st *specState, name string, i int32) tla.Value { return st.get(name).ApplyFunction(rfNum(i)) }

func rfIsPrefix(a, b tla.Value) bool {
	if a.AsTuple().Len() > b.AsTuple().Len() {
		return false
	}
	for k := 0; k < a.AsTuple().Len(); k++ {
		if !a.AsTuple().Get(k).Equal(b.AsTuple().Get(k)) {
			return false
		}
	}
	return true
}

func rfLastTerm(log tla.Value) int32 {
	if log.AsTuple().Len() == 0 {
		return 0
	}
	return log.AsTuple().Get(log.AsTuple().Len() - 1).ApplyFunction(rfS("term")).AsNumber()
}

// messages newly added to node j's mailbox by the step
func rfNewMsgs(pre, post *specState, j int32) []tla.Value {
	q0 := asBag(rfGet(pre, "network", j).ApplyFunction(specQueue))
	q1 := asBag(rfGet(post, "network", j).ApplyFunction(specQueue))
	var out []tla.Value
	it := q1.AsFunction().Iterator()
	for !it.Done() {
		m, c, _ := it.Next()
		old := int32(0)
		if v, ok := q0.AsFunction().Get(m); ok {
			old = v.AsNumber()
		}
		if c.AsNumber() > old {
			out = append(out, m)
		}
	}
	return out
}

// step-level Raft lemmas that hold for every label of every archetype of server i
func (s *rfSys) commonLemmas(label string, pre, post *specState) {
	i := s.self
	st0, st1 := rfGet(pre, "state", i).AsString(), rfGet(post, "state", i).AsString()
	t0, t1 := rfGet(pre, "currentTerm", i).AsNumber(), rfGet(post, "currentTerm", i).AsNumber()
	log0, log1 := rfGet(pre, "log", i), rfGet(post, "log", i)
	c0, c1 := rfGet(pre, "commitIndex", i).AsNumber(), rfGet(post, "commitIndex", i).AsNumber()
	v0, v1 := rfGet(pre, "votedFor", i).AsNumber(), rfGet(post, "votedFor", i).AsNumber()
	verifAssert(t1 >= t0, "C08 "+label+": currentTerm never decreases")
	if st0 == "leader" && st1 == "leader" {
		verifAssert(rfIsPrefix(log0, log1), "C08 "+label+": LeaderAppendOnly - a leader only appends to its log")
	}
	if t1 == t0 && v0 != 0 {
		verifAssert(v1 == v0, "C08 "+label+": within a term a vote, once cast, is not changed")
	}
	if st1 == "leader" && st0 != "leader" {
		verifAssert(label == "serverBecomeLeaderLoop" && st0 == "candidate" && 2*rfGet(pre, "votesGranted", i).AsSet().Len() > s.n,
			"C08 "+label+": a server becomes leader only as a candidate holding votes from a quorum")
	}
	verifAssert(c1 >= c0, "C08 "+label+": commitIndex never decreases")
	verifAssert(int(c1) <= log1.AsTuple().Len() || c1 == c0, "C08 "+label+": commitIndex never moves beyond the end of the log")
	// apply step: the state machine changes exactly by the newly committed entries of the post-step log, in order
	sm1, dom1 := rfGet(post, "sm", i), rfGet(post, "smDomain", i)
	if c1 > c0 {
		res := s.ec.specEvalDef(pre, "ApplyLog", log1, rfNum(c0+1), rfNum(c1), rfGet(pre, "sm", i), rfGet(pre, "smDomain", i))
		verifAssert(specEq(res.ApplyFunction(rfNum(1)), sm1) && specEq(res.ApplyFunction(rfNum(2)), dom1),
			"C08 "+label+": exactly the newly committed entries (c+1..c') of the log are applied to the state machine, in order")
	} else {
		verifAssert(specEq(rfGet(pre, "sm", i), sm1) && specEq(rfGet(pre, "smDomain", i), dom1), "C08 "+label+": the state machine only changes when entries are committed")
	}
}

func (s *rfSys) relation(key, label string, pre *specState) []*specState {
	p := s.procs[key]
	want := s.ec.specSuccessors(pre, label, p.self)
	wantAssert := s.ec.assertFailed
	posts, errs := s.d.allSteps(p, pre)
	for _, e := range errs {
		verifAssert(errors.Is(e, distsys.ErrAssertionFailed) && wantAssert, "C02 raftkvs "+label+": Go fails only with an assertion failure, and only where the specification's assertion fails")
	}
	for _, g := range posts {
		verifAssert(specContains(want, g), "C02 raftkvs "+label+": every committed Go step is a step of the TLA+ action")
	}
	for _, w := range want {
		verifAssert(specContains(posts, w), "C02 raftkvs "+label+": every step of the TLA+ action is taken by the Go code under some choice resolution")
	}
	return posts
}

func HarnessRaft_HandleMsg()     { rfMaxLog = 1; rfHandleMsg(3) }
func HarnessRaft_HandleMsgDeep() { rfMaxLog = 2; rfHandleMsg(2 + verifChoose("servers", 2)) }
func HarnessRaft_Roles()         { rfMaxLog = 1; rfRoles(3) }
func HarnessRaft_RolesDeep()     { rfMaxLog = 2; rfRoles(2 + verifChoose("servers", 2)) }

func rfHandleMsg(n int) {
	verifUnwind(1000000, false)
	s := rfNew(n, 1)
	typ := verifChoose("mtype", 5)
	vary := []string{"log votedFor leader", "votes leader votedFor", "log commit sm leader votedFor", "index leader votedFor", "log leader"}[typ]
	pre, term := s.arbitrary(vary)
	j := int32(2 + verifChoose("source", n-1))
	mterm := rfRange("mterm", 1, term+1)
	var m tla.Value
	base := []tla.Value{rfS("mterm"), rfNum(mterm), rfS("msource"), rfNum(j), rfS("mdest"), rfNum(1)}
	switch typ {
	case 0:
		m = rfRec(append(base, rfS("mtype"), rfS("rvq"), rfS("mlastLogTerm"), rfNum(rfRange("mlastLogTerm", 0, 2)), rfS("mlastLogIndex"), rfNum(rfRange("mlastLogIndex", 0, 2)))...)
	case 1:
		m = rfRec(append(base, rfS("mtype"), rfS("rvp"), rfS("mvoteGranted"), tla.MakeBool(verifNondetBool("mvoteGranted")))...)
	case 2:
		var entries []tla.Value
		for k, l := 0, verifChoose("nentries", 2); k < l; k++ {
			entries = append(entries, rfEntry("mentry", mterm))
		}
		m = rfRec(append(base, rfS("mtype"), rfS("apq"), rfS("mprevLogIndex"), rfNum(rfRange("mprevLogIndex", 0, 2)), rfS("mprevLogTerm"), rfNum(rfRange("mprevLogTerm", 0, 2)),
			rfS("mentries"), tla.MakeTuple(entries...), rfS("mcommitIndex"), rfNum(rfRange("mcommitIndex", 0, 2)))...)
	case 3:
		m = rfRec(append(base, rfS("mtype"), rfS("app"), rfS("msuccess"), tla.MakeBool(verifNondetBool("msuccess")), rfS("mmatchIndex"), rfNum(rfRange("mmatchIndex", 0, 2)))...)
	case 4:
		cmd := rfCmd("mcmd")
		mt := "cpq"
		if cmd.ApplyFunction(rfS("type")).AsString() == "get" {
			mt = "cgq"
		}
		m = rfRec(rfS("mtype"), rfS(mt), rfS("mcmd"), cmd, rfS("msource"), rfNum(rfClientID), rfS("mdest"), rfNum(1))
		j = rfClientID
	}
	pre.put("m", specPut(pre.get("m"), []tla.Value{rfNum(1)}, m))
	s.setPC(pre, "s0", "handleMsg")
	posts := s.relation("s0", "handleMsg", pre)
	for _, post := range posts {
		s.commonLemmas("handleMsg", pre, post)
		t1 := rfGet(post, "currentTerm", 1).AsNumber()
		log0, log1 := rfGet(pre, "log", 1), rfGet(post, "log", 1)
		switch typ {
		case 0:
			for _, r := range rfNewMsgs(pre, post, j) {
				if r.ApplyFunction(rfS("mvoteGranted")).AsBool() {
					upToDate := m.ApplyFunction(rfS("mlastLogTerm")).AsNumber() > rfLastTerm(log0) ||
						(m.ApplyFunction(rfS("mlastLogTerm")).AsNumber() == rfLastTerm(log0) && int(m.ApplyFunction(rfS("mlastLogIndex")).AsNumber()) >= log0.AsTuple().Len())
					verifAssert(rfGet(post, "votedFor", 1).AsNumber() == j && r.ApplyFunction(rfS("mterm")).AsNumber() == t1 && mterm == t1 && upToDate,
						"C08 handleMsg: a vote is granted only in the candidate's term, to a candidate whose log is at least as up-to-date, and is recorded in votedFor")
				}
			}
		case 1:
			g0, g1 := rfGet(pre, "votesGranted", 1), rfGet(post, "votesGranted", 1)
			if !g0.Equal(g1) {
				verifAssert(m.ApplyFunction(rfS("mvoteGranted")).AsBool() && mterm == t1 && g1.Equal(tla.ModuleUnionSymbol(g0, tla.MakeSet(rfNum(j)))),
					"C08 handleMsg: votesGranted grows only by the sender of a granted response of the current term")
			}
		case 2:
			for _, r := range rfNewMsgs(pre, post, j) {
				prev := m.ApplyFunction(rfS("mprevLogIndex")).AsNumber()
				if r.ApplyFunction(rfS("msuccess")).AsBool() {
					match := prev == 0 || (int(prev) <= log0.AsTuple().Len() && log0.AsTuple().Get(int(prev)-1).ApplyFunction(rfS("term")).AsNumber() == m.ApplyFunction(rfS("mprevLogTerm")).AsNumber())
					want := tla.ModuleOSymbol(tla.ModuleSubSeq(log0, rfNum(1), rfNum(prev)), m.ApplyFunction(rfS("mentries")))
					verifAssert(match && log1.Equal(want), "C08 handleMsg: an accepted AppendEntries requires the previous-entry match and yields log' = log[1..prev] \\o entries")
				} else {
					verifAssert(log1.Equal(log0), "C08 handleMsg: a rejected AppendEntries leaves the log unchanged")
				}
			}
		}
	}
	verifReach("end")
}

// the other four archetypes of server i: election start, AppendEntries sending, commit advance + apply, become leader
func rfRoles(n int) {
	verifUnwind(1000000, false)
	s := rfNew(n, 1)
	which := verifChoose("label", 6)
	pre, _ := s.arbitrary([]string{"", "log", "", "log index commit", "log index commit", "votes log"}[which])
	keys := []string{"s1", "s1", "s2", "s2", "s3", "s4"}
	labels := []string{"serverRequestVoteLoop", "requestVoteLoop", "serverAppendEntriesLoop", "appendEntriesLoop", "serverAdvanceCommitIndexLoop", "serverBecomeLeaderLoop"}
	key, label := keys[which], labels[which]
	p := s.procs[key]
	s.setPC(pre, key, label)
	switch label {
	case "requestVoteLoop":
		pre.put("idx0", specPut(pre.get("idx0"), []tla.Value{p.self}, rfNum(rfRange("idx", 1, int32(n)+1))))
	case "appendEntriesLoop":
		pre.put("idx1", specPut(pre.get("idx1"), []tla.Value{p.self}, rfNum(rfRange("idx", 1, int32(n)+1))))
		// nextIndex within the log (+1), as the leader maintains it
		for k := 1; k <= n; k++ {
			verifAssume(int(rfGet(pre, "nextIndex", 1).ApplyFunction(rfNum(int32(k))).AsNumber()) <= rfGet(pre, "log", 1).AsTuple().Len()+1)
		}
	case "serverBecomeLeaderLoop":
		if verifChoose("signalled", 2) == 1 {
			pre.put("becomeLeaderCh", specPut(pre.get("becomeLeaderCh"), []tla.Value{rfNum(1)}, tla.MakeTuple(tla.ModuleTRUE)))
		}
	case "serverAppendEntriesLoop":
		if verifChoose("signalled", 2) == 1 {
			pre.put("appendEntriesCh", specPut(pre.get("appendEntriesCh"), []tla.Value{rfNum(1)}, tla.MakeTuple(tla.ModuleTRUE)))
		}
	}
	posts := s.relation(key, label, pre)
	for _, post := range posts {
		s.commonLemmas(label, pre, post)
		if label == "serverAdvanceCommitIndexLoop" {
			nc := post.get("newCommitIndex").ApplyFunction(p.self).AsNumber()
			c0 := rfGet(pre, "commitIndex", 1).AsNumber()
			if nc > c0 {
				log := rfGet(pre, "log", 1)
				agree := 1 // the leader itself
				for k := 2; k <= n; k++ {
					if rfGet(pre, "matchIndex", 1).ApplyFunction(rfNum(int32(k))).AsNumber() >= nc {
						agree++
					}
				}
				verifAssert(int(nc) <= log.AsTuple().Len() && log.AsTuple().Get(int(nc)-1).ApplyFunction(rfS("term")).AsNumber() == rfGet(pre, "currentTerm", 1).AsNumber() && 2*agree > n,
					"C08 advanceCommitIndex: the leader advances its commit index only to an entry of its current term that is stored on a quorum")
			}
		}
		if label == "serverRequestVoteLoop" {
			verifAssert(rfGet(post, "currentTerm", 1).AsNumber() == rfGet(pre, "currentTerm", 1).AsNumber()+1 && rfGet(post, "votedFor", 1).AsNumber() == 1 && rfGet(post, "state", 1).AsString() == "candidate",
				"C08 election start: the term is incremented, the server votes for itself and becomes candidate")
		}
	}
	verifReach("end")
}

// C08/C02 (and the mechanisms C09 rests on): applying committed entries and answering the client, receiving a message,
// and the client's three labels, from arbitrary typed states.
func HarnessRaft_ClientApply() {
	verifUnwind(1000000, false)
	rfMaxLog = 2
	n := 3
	s := rfNew(n, 1)
	which := verifChoose("label", 5)
	key := []string{"s3", "s0", "c0", "c0", "c0"}[which]
	label := []string{"applyLoop", "serverLoop", "clientLoop", "sndReq", "rcvResp"}[which]
	p := s.procs[key]
	var pre *specState
	cid := rfNum(rfClientID)
	setC := func(name string, v tla.Value) { pre.put(name, specPut(pre.get(name), []tla.Value{cid}, v)) }
	bagOf := func(msgs ...tla.Value) tla.Value { return setToBag(tla.MakeSet(msgs...)) }
	switch label {
	case "applyLoop":
		pre, _ = s.arbitrary("log commit sm")
		nc := rfRange("newCommitIndex", 0, int32(rfGet(pre, "log", 1).AsTuple().Len()))
		pre.put("newCommitIndex", specPut(pre.get("newCommitIndex"), []tla.Value{p.self}, rfNum(nc)))
	case "serverLoop":
		pre, _ = s.arbitrary("")
		m := rfRec(rfS("mtype"), rfS("rvp"), rfS("mterm"), rfNum(rfRange("mterm", 1, 4)), rfS("mvoteGranted"), tla.MakeBool(verifNondetBool("granted")),
			rfS("msource"), rfNum(int32(2+verifChoose("source", n-1))), rfS("mdest"), rfNum(1))
		msgs := []tla.Value{m}
		if verifChoose("second", 2) == 1 {
			msgs = append(msgs, rfRec(rfS("mtype"), rfS("cgq"), rfS("mcmd"), rfRec(rfS("idx"), rfNum(1), rfS("type"), rfS("get"), rfS("key"), rfS("k")), rfS("msource"), cid, rfS("mdest"), rfNum(1)))
		}
		pre.put("network", specPut(pre.get("network"), []tla.Value{rfNum(1)}, specLink(bagOf(msgs...), tla.MakeBool(verifChoose("enabled", 2) == 1))))
	default:
		pre, _ = s.arbitrary("")
		// (the client holds a leader guess whenever it waits for a response: sndReq picks one when it has none)
		if label == "rcvResp" {
			setC("leader0", rfNum(int32(1+verifChoose("leader", n))))
		} else {
			setC("leader0", rfNum(int32(verifChoose("leader", n+1))))
		}
		setC("reqIdx", rfNum(rfRange("reqIdx", 0, 3)))
		req := rfCmd("req")
		req = rfRec(rfS("type"), req.ApplyFunction(rfS("type")), rfS("key"), rfS("k"), rfS("value"), rfS("k"))
		if verifChoose("req.get", 2) == 1 {
			req = rfRec(rfS("type"), rfS("get"), rfS("key"), rfS("k"))
		}
		setC("req", req)
		if label == "rcvResp" && verifChoose("mailbox", 2) == 1 {
			mt := []string{"cpp", "cgp"}[verifChoose("resp.type", 2)]
			resp := rfRec(rfS("mtype"), rfS(mt), rfS("msuccess"), tla.MakeBool(verifNondetBool("resp.success")),
				rfS("mresponse"), rfRec(rfS("idx"), rfNum(rfRange("resp.idx", 0, 3)), rfS("key"), rfS([]string{"k", "other"}[verifChoose("resp.key", 2)]), rfS("value"), rfS("k"), rfS("ok"), tla.ModuleTRUE),
				rfS("mleaderHint"), rfNum(int32(1+verifChoose("hint", n))), rfS("msource"), rfNum(1), rfS("mdest"), rfNum(int32([]int32{rfClientID, 1}[verifChoose("resp.dest", 2)])))
			pre.put("network", specPut(pre.get("network"), []tla.Value{cid}, specLink(bagOf(resp), tla.ModuleTRUE)))
		}
	}
	s.setPC(pre, key, label)
	posts := s.relation(key, label, pre)
	for _, post := range posts {
		switch label {
		case "applyLoop":
			s.commonLemmas(label, pre, post)
			c0, c1 := rfGet(pre, "commitIndex", 1).AsNumber(), rfGet(post, "commitIndex", 1).AsNumber()
			news := rfNewMsgs(pre, post, rfClientID)
			verifAssert((c1 == c0 && len(news) == 0) || (c1 == c0+1 && len(news) == 1), "C08 applyLoop: entries are applied one at a time, and the client is answered exactly when its entry is applied")
			if c1 == c0+1 && len(news) == 1 {
				cmd := rfGet(pre, "log", 1).AsTuple().Get(int(c1) - 1).ApplyFunction(rfS("cmd"))
				r := news[0].ApplyFunction(rfS("mresponse"))
				sm1 := rfGet(post, "sm", 1)
				want, has := sm1.AsFunction().Get(cmd.ApplyFunction(rfS("key")))
				inDom := tla.ModuleInSymbol(cmd.ApplyFunction(rfS("key")), rfGet(post, "smDomain", 1)).AsBool()
				verifAssert(r.ApplyFunction(rfS("idx")).Equal(cmd.ApplyFunction(rfS("idx"))) && r.ApplyFunction(rfS("key")).Equal(cmd.ApplyFunction(rfS("key"))) &&
					r.ApplyFunction(rfS("ok")).AsBool() == inDom && (!inDom || (has && r.ApplyFunction(rfS("value")).Equal(want))),
					"C08 applyLoop: the answer carries the request's idx and key and the value the state machine holds once the entry is applied (Gets are answered from the log order)")
			}
		case "rcvResp":
			r0, r1 := pre.get("respCh"), post.get("respCh")
			if !specEq(r0, r1) {
				verifAssert(r1.ApplyFunction(rfS("mresponse")).ApplyFunction(rfS("idx")).Equal(pre.get("reqIdx").ApplyFunction(cid)) && r1.ApplyFunction(rfS("msuccess")).AsBool(),
					"C08 client: only a successful response that carries the index of the outstanding request is delivered to the application")
			}
		}
	}
	verifReach("end")
}
