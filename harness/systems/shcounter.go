//go:build verif

package shcounter

// C16 for the 2PC-backed shared counter, end to end on the REAL stack: the generated ANode (shcounter.go) of every
// node runs in the REAL MPCalContext.Run loop over the REAL TwoPCArchetypeResource it is deployed with (proposer,
// acceptor, RPC replica handles, back-off) on the engine's net/rpc model; schedules are explored up to the delay
// bound of the configuration (every critical-section start and every back-off sleep is a scheduling point).
//
//   - a Run that returns returns nil, and the node then reads exactly NUM_NODES (no increment is lost or applied twice)
//   - a node passes `wait` only when the counter reads NUM_NODES

import (
	"github.com/DistCompiler/pgo/distsys"
	"github.com/DistCompiler/pgo/distsys/resources"
	"github.com/DistCompiler/pgo/distsys/tla"
)

func init() {
	verifRegister("HarnessShCounter_System", HarnessShCounter_System)
	verifRegister("HarnessShCounter_System3", HarnessShCounter_System3)
	verifRegister("HarnessShCounter_SystemDeep", HarnessShCounter_SystemDeep)
}

// every critical-section start is a scheduling point; it also tells the harness which label the node has reached
// (the label passed in is the committed program counter)
type shYield struct{ at *string }

func (y shYield) BeginCriticalSection(pc string) {
	*y.at = pc
	verifYield()
}
func (shYield) NextFairnessCounter(string, uint) uint { return 0 }

func HarnessShCounter_System()  { shSystem(2, 40) }
func HarnessShCounter_System3() { shSystem(3, 120) }
func HarnessShCounter_SystemDeep() { shSystem(2, 80) }

func shSystem(n, rounds int) {
	verifUnwind(1000000, false)
	receivers := make([]*resources.TwoPCReceiver, n)
	ctxs := make([]*distsys.MPCalContext, n)
	done := make([]bool, n)
	errs := make([]error, n)
	at := make([]string, n)
	for i := 0; i < n; i++ {
		i := i
		maker := resources.NewTwoPC(tla.MakeNumber(0), getListenAddress(i), getReplicas(i, n), getArchetypeID(i),
			func(receiver *resources.TwoPCReceiver) { receivers[i] = receiver })
		ctxs[i] = distsys.NewMPCalContext(tla.MakeNumber(int32(i)), ANode,
			distsys.DefineConstantValue("NUM_NODES", tla.MakeNumber(int32(n))),
			distsys.SetFairnessCounter(shYield{&at[i]}),
			distsys.EnsureArchetypeRefParam("cntr", maker))
	}
	for i := range ctxs {
		i := i
		go func() {
			errs[i] = ctxs[i].Run()
			done[i] = true
		}()
	}
	all := func() bool {
		for i := range done {
			if !done[i] {
				return false
			}
		}
		return true
	}
	// (termination is probabilistic - randomised back-off - and is not claimed: under this scheduler two proposers
	// can collide for ever; what is claimed is the value whenever nodes do finish)
	for k := 0; k < rounds && !all(); k++ {
		verifYield()
	}
	if all() {
		verifReach("all-finished")
	}
	// every node that has left `update` has committed one increment, and every commit produces a version of its own
	updated, maxVersion := 0, 0
	for i := 0; i < n; i++ {
		if done[i] || at[i] == "ANode.wait" {
			updated++
		}
		if v := resources.GetTwoPCVersion(receivers[i]); v > maxVersion {
			maxVersion = v
		}
	}
	// (the read-only `wait` sections commit through 2PC as well, so versions run up to 2n)
	verifAssert(maxVersion >= updated && maxVersion <= 2*n, "C16 shcounter: every committed increment produces a version of its own (none is lost)")
	for i := 0; i < n; i++ {
		if done[i] {
			verifAssert(errs[i] == nil, "C16 shcounter: no node fails")
			v, err := getCounterValue(ctxs[i])
			verifAssert(err == nil && v.Equal(tla.MakeNumber(int32(n))), "C16 shcounter: the shared counter ends at exactly the number of nodes")
		}
	}
	verifReach("end")
}
