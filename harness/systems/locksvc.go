//go:build verif

package locksvc

// C15 / C02 for the lock service: the generated archetypes AServer / AClient (locksvc.go) are stepped one critical
// section at a time over the specification state of locksvc.tla; the network parameter is bound to the ReliableLink
// mapping macro (bags), hasLock to the plain global.

import (
	"errors"

	"github.com/DistCompiler/pgo/distsys"
	"github.com/DistCompiler/pgo/distsys/tla"
)

func init() {
	verifRegister("HarnessLocksvc_StepRelation", HarnessLocksvc_StepRelation)
	verifRegister("HarnessLocksvc_Inductive", HarnessLocksvc_Inductive)
	verifRegister("HarnessLocksvc_FromInit", HarnessLocksvc_FromInit)
	verifRegister("HarnessLocksvc_FromInitDeep", HarnessLocksvc_FromInitDeep)
}

type lsSys struct {
	d       *specDriver
	n       int
	server  *specProc
	clients []*specProc
	ec      *specCtx
}

func lsNew(n int) *lsSys {
	d := &specDriver{oracle: &specOracle{}}
	ec := &specCtx{consts: map[string]tla.Value{"NumClients": tla.MakeNumber(int32(n)), "defaultInitValue": tla.Value{}}}
	d.eval = ec
	consts := distsys.DefineConstantValue("NumClients", tla.MakeNumber(int32(n)))
	sys := &lsSys{d: d, n: n, ec: ec}
	mk := func(arch distsys.MPCalArchetype, self int32, locals []string, params ...distsys.MPCalContextConfigFn) *specProc {
		cfg := append([]distsys.MPCalContextConfigFn{consts, distsys.SetFairnessCounter(d.oracle)}, params...)
		ctx := distsys.NewMPCalContext(tla.MakeNumber(self), arch, cfg...)
		distsys.VerifPreRun(ctx)
		return &specProc{ctx: ctx, arch: arch.Name, self: tla.MakeNumber(self), locals: locals, perProcess: true, pcVar: "pc"}
	}
	sys.server = mk(AServer, 0, []string{"msg", "q"}, distsys.EnsureArchetypeRefParam("network", &specBagLink{d: d, name: "network"}))
	for i := 1; i <= n; i++ {
		sys.clients = append(sys.clients, mk(AClient, int32(i), nil,
			distsys.EnsureArchetypeRefParam("network", &specBagLink{d: d, name: "network"}),
			distsys.EnsureArchetypeRefParam("hasLock", &specGlobal{d: d, name: "hasLock"})))
	}
	return sys
}

func (s *lsSys) procs() []*specProc { return append([]*specProc{s.server}, s.clients...) }

var lsServerLabels = []string{"serverLoop", "serverReceive", "serverRespond"}
var lsClientLabels = []string{"acquireLock", "criticalSection", "unlock", "Done"}

func lsMsg(from int32, typ int32) tla.Value {
	return tla.MakeRecord([]tla.RecordField{{Key: tla.MakeString("from"), Value: tla.MakeNumber(from)}, {Key: tla.MakeString("type"), Value: tla.MakeNumber(typ)}})
}

func lsClientID(tag string, n int) int32 {
	return int32(1 + verifChoose(tag, n))
}

// an arbitrary type-correct state, shaped for a step of process `who` at label `label`: everything that label reads
// or writes is arbitrary (queue members, pending messages, lock flags), the rest is fixed
func (s *lsSys) arbitrary(who int, label string) *specState {
	n := s.n
	st := newSpecState()
	var pcs, nets, locks []tla.RecordField
	spc := "serverReceive"
	if who == 0 {
		spc = label
	}
	pcs = append(pcs, tla.RecordField{Key: tla.MakeNumber(0), Value: tla.MakeString(spc)})
	var q []tla.Value
	msg := tla.Value{}
	bag := specEmptyFunction()
	if who == 0 {
		for i, ql := 0, verifChoose("qlen", 3); i < ql; i++ {
			q = append(q, tla.MakeNumber(lsClientID("q", n)))
		}
		if label == "serverRespond" || verifChoose("hasmsg", 2) == 1 {
			t := verifNondetInt32("msgtype") // also values that are neither LockMsg nor UnlockMsg
			verifAssume(t >= 0 && t <= 3)
			msg = tla.MakeRecord([]tla.RecordField{{Key: tla.MakeString("from"), Value: tla.MakeNumber(lsClientID("msgfrom", n))}, {Key: tla.MakeString("type"), Value: tla.MakeNumber(t)}})
		}
	}
	// server mailbox: up to two pending requests
	for i, k := 0, verifChoose("nreq", 3); i < k; i++ {
		bag = bagAdd(bag, setToBag(tla.MakeSet(lsMsg(lsClientID("reqfrom", n), int32(1+verifChoose("reqtype", 2))))))
	}
	nets = append(nets, tla.RecordField{Key: tla.MakeNumber(0), Value: bag})
	locks = append(locks, tla.RecordField{Key: tla.MakeNumber(0), Value: tla.ModuleFALSE})
	for i := 1; i <= n; i++ {
		id := tla.MakeNumber(int32(i))
		cpc := "Done"
		cb := specEmptyFunction()
		if who == i {
			cpc = label
			for g, k := 0, verifChoose("nmsg", 3); g < k; g++ {
				m := verifNondetInt32("cmsg") // grants and (to exercise the assertion) other values
				verifAssume(m >= 2 && m <= 3)
				cb = bagAdd(cb, setToBag(tla.MakeSet(tla.MakeNumber(m))))
			}
		} else if who == 0 {
			for g, k := 0, verifChoose("ngrant", 2); g < k; g++ {
				cb = bagAdd(cb, setToBag(tla.MakeSet(tla.MakeNumber(3))))
			}
		}
		pcs = append(pcs, tla.RecordField{Key: id, Value: tla.MakeString(cpc)})
		nets = append(nets, tla.RecordField{Key: id, Value: cb})
		locks = append(locks, tla.RecordField{Key: id, Value: tla.MakeBool(verifNondetBool("haslock"))})
	}
	st.put("pc", tla.MakeRecord(pcs))
	st.put("network", tla.MakeRecord(nets))
	st.put("hasLock", tla.MakeRecord(locks))
	st.put("msg", tla.MakeRecord([]tla.RecordField{{Key: tla.MakeNumber(0), Value: msg}}))
	st.put("q", tla.MakeRecord([]tla.RecordField{{Key: tla.MakeNumber(0), Value: tla.MakeTuple(q...)}}))
	return st
}

// the Go label, run for every resolution of its choice points, yields exactly the successors the TLA+ action allows
func (s *lsSys) checkStep(p *specProc, pre *specState, both bool) []*specState {
	label := s.d.labelOf(p, pre)
	if label == "Done" {
		return nil
	}
	want := s.ec.specSuccessors(pre, label, p.self)
	wantAssert := s.ec.assertFailed
	got, errs := s.d.allSteps(p, pre)
	for _, e := range errs {
		verifAssert(errors.Is(e, distsys.ErrAssertionFailed) && wantAssert, "C02 locksvc "+label+": Go fails only with an assertion failure, and only where the specification's assertion fails")
	}
	for _, g := range got {
		verifAssert(specContains(want, g), "C02 locksvc "+label+": every committed Go step is a step of the TLA+ action (same variable updates, next label, messages)")
	}
	if len(want) == 0 {
		verifAssert(len(got) == 0, "C02 locksvc "+label+": a step the specification disables never commits")
	}
	if both {
		for _, w := range want {
			verifAssert(specContains(got, w), "C02 locksvc "+label+": every step of the TLA+ action is taken by the Go code under some resolution of its choices")
		}
	}
	return got
}

func HarnessLocksvc_StepRelation() {
	n := 1 + verifChoose("clients", 2)
	s := lsNew(n)
	who := verifChoose("process", n+1)
	label := ""
	if who == 0 {
		label = lsServerLabels[verifChoose("label", 3)]
	} else {
		label = lsClientLabels[verifChoose("label", 3)]
	}
	pre := s.arbitrary(who, label)
	if label == "serverRespond" {
		// Tail of an empty queue is an error on both sides; the spec never reaches it (C15's invariant)
		verifAssume(!(pre.get("msg").ApplyFunction(tla.MakeNumber(0)).ApplyFunction(tla.MakeString("type")).AsNumber() == 2 && pre.get("q").ApplyFunction(tla.MakeNumber(0)).AsTuple().Len() == 0))
	}
	s.checkStep(s.procs()[who], pre, true)
	verifReach("end")
}

// ---- C15: inductive invariant ----

func lsCount(bag tla.Value, m tla.Value) int32 {
	v, ok := asBag(bag).AsFunction().Get(m)
	if !ok {
		return 0
	}
	return v.AsNumber()
}

// lsInv: the inductive invariant behind Safety (see DESIGN.md C15). Phases of client i:
//   idle       pc=acquireLock, nothing of i anywhere
//   requesting pc=criticalSection, exactly one Lock(i) in the server mailbox or in msg (being processed)
//   queued     pc=criticalSection, i in q but not its head, no grant
//   granted    pc=criticalSection, i = Head(q), exactly one grant in i's mailbox
//   holding    pc=unlock, i = Head(q), hasLock may be TRUE, no grant
//   releasing  pc=Done, i = Head(q), exactly one Unlock(i) in the server mailbox or in msg
//   finished   pc=Done, nothing of i anywhere
func (s *lsSys) inv(st *specState) bool {
	n := s.n
	pc, net, lock := st.get("pc"), st.get("network"), st.get("hasLock")
	zero := tla.MakeNumber(0)
	q := st.get("q").ApplyFunction(zero).AsTuple()
	msg := st.get("msg").ApplyFunction(zero)
	spc := pc.ApplyFunction(zero).AsString()
	inbox := net.ApplyFunction(zero)
	ok := true
	// queue members are clients, without duplicates
	for i := 0; i < q.Len(); i++ {
		qi := q.Get(i).AsNumber()
		ok = ok && qi >= 1 && qi <= int32(n)
		for j := 0; j < i; j++ {
			ok = ok && q.Get(j).AsNumber() != qi
		}
	}
	processing := spc == "serverRespond" // msg holds a request that is being processed
	if processing && !msg.IsFunction() {
		return false
	}
	totalInbox := int32(0)
	for i := 1; i <= n; i++ {
		id := tla.MakeNumber(int32(i))
		cpc := pc.ApplyFunction(id).AsString()
		locks := int32(0)
		unlocks := int32(0)
		locks += lsCount(inbox, lsMsg(int32(i), 1))
		unlocks += lsCount(inbox, lsMsg(int32(i), 2))
		totalInbox += locks + unlocks
		if processing && msg.ApplyFunction(tla.MakeString("from")).AsNumber() == int32(i) {
			if msg.ApplyFunction(tla.MakeString("type")).AsNumber() == 1 {
				locks++
			} else {
				unlocks++
			}
		}
		grants := lsCount(net.ApplyFunction(id), tla.MakeNumber(3))
		inQ, isHead := false, false
		for k := 0; k < q.Len(); k++ {
			if q.Get(k).AsNumber() == int32(i) {
				inQ = true
				isHead = k == 0
			}
		}
		has := lock.ApplyFunction(id).AsBool()
		// only grants ever reach a client mailbox
		ok = ok && bagCard(net.ApplyFunction(id)).AsNumber() == grants
		idle := cpc == "acquireLock" && locks == 0 && unlocks == 0 && grants == 0 && !inQ && !has
		requesting := cpc == "criticalSection" && locks == 1 && unlocks == 0 && grants == 0 && !inQ && !has
		queued := cpc == "criticalSection" && locks == 0 && unlocks == 0 && grants == 0 && inQ && !isHead && !has
		granted := cpc == "criticalSection" && locks == 0 && unlocks == 0 && grants == 1 && isHead && !has
		holding := cpc == "unlock" && locks == 0 && unlocks == 0 && grants == 0 && isHead
		releasing := cpc == "Done" && locks == 0 && unlocks == 1 && grants == 0 && isHead && !has
		finished := cpc == "Done" && locks == 0 && unlocks == 0 && grants == 0 && !inQ && !has
		ok = ok && (idle || requesting || queued || granted || holding || releasing || finished)
	}
	// nothing else is in the server mailbox
	ok = ok && bagCard(inbox).AsNumber() == totalInbox
	ok = ok && !lock.ApplyFunction(zero).AsBool()
	return ok
}

// invState constructs exactly the states that satisfy lsInv, by choosing a phase per client (plus queue order, which
// request is being processed, the server's control point); lsInv is still assumed afterwards as a safety net.
func (s *lsSys) invState() *specState {
	n := s.n
	const (
		phIdle = iota
		phRequesting
		phQueued
		phGranted
		phHolding
		phReleasing
		phFinished
	)
	phase := make([]int, n+1)
	head := 0
	var queued []int32
	for i := 1; i <= n; i++ {
		phase[i] = verifChoose("phase", 7)
		switch phase[i] {
		case phGranted, phHolding, phReleasing:
			verifAssume(head == 0)
			head = i
		case phQueued:
			queued = append(queued, int32(i))
		}
	}
	verifAssume(head != 0 || len(queued) == 0)
	var q []tla.Value
	if head != 0 {
		q = append(q, tla.MakeNumber(int32(head)))
	}
	for len(queued) > 0 { // any order of the waiting clients
		k := verifChoose("qorder", len(queued))
		q = append(q, tla.MakeNumber(queued[k]))
		queued = append(queued[:k], queued[k+1:]...)
	}
	inbox := specEmptyFunction()
	msg := tla.Value{}
	processing := false
	var pcs, nets, locks []tla.RecordField
	for i := 1; i <= n; i++ {
		id := tla.MakeNumber(int32(i))
		cpc := "acquireLock"
		cb := specEmptyFunction()
		has := false
		place := func(m tla.Value) {
			if !processing && verifChoose("inflight", 2) == 1 {
				processing = true
				msg = m
			} else {
				inbox = bagAdd(inbox, setToBag(tla.MakeSet(m)))
			}
		}
		switch phase[i] {
		case phRequesting:
			cpc = "criticalSection"
			place(lsMsg(int32(i), 1))
		case phQueued:
			cpc = "criticalSection"
		case phGranted:
			cpc = "criticalSection"
			cb = setToBag(tla.MakeSet(tla.MakeNumber(3)))
		case phHolding:
			cpc = "unlock"
			has = verifNondetBool("haslock")
		case phReleasing:
			cpc = "Done"
			place(lsMsg(int32(i), 2))
		case phFinished:
			cpc = "Done"
		}
		pcs = append(pcs, tla.RecordField{Key: id, Value: tla.MakeString(cpc)})
		nets = append(nets, tla.RecordField{Key: id, Value: cb})
		locks = append(locks, tla.RecordField{Key: id, Value: tla.MakeBool(has)})
	}
	spc := "serverRespond"
	if !processing {
		spc = lsServerLabels[verifChoose("spc", 2)]
		if verifChoose("stalemsg", 2) == 1 { // a request processed earlier may still sit in msg
			msg = lsMsg(lsClientID("msgfrom", n), int32(1+verifChoose("msgtype", 2)))
		}
	}
	zero := tla.MakeNumber(0)
	pcs = append(pcs, tla.RecordField{Key: zero, Value: tla.MakeString(spc)})
	nets = append(nets, tla.RecordField{Key: zero, Value: inbox})
	locks = append(locks, tla.RecordField{Key: zero, Value: tla.ModuleFALSE})
	st := newSpecState()
	st.put("pc", tla.MakeRecord(pcs))
	st.put("network", tla.MakeRecord(nets))
	st.put("hasLock", tla.MakeRecord(locks))
	st.put("msg", tla.MakeRecord([]tla.RecordField{{Key: zero, Value: msg}}))
	st.put("q", tla.MakeRecord([]tla.RecordField{{Key: zero, Value: tla.MakeTuple(q...)}}))
	return st
}

func HarnessLocksvc_Inductive() {
	n := 1 + verifChoose("clients", 3)
	s := lsNew(n)
	pre := s.invState()
	verifAssert(s.inv(pre), "the state generator only produces states satisfying the invariant")
	verifReach("state")
	verifAssert(s.ec.specHolds(pre, "Safety"), "C15: the invariant implies Safety (no two clients hold the lock)")
	who := verifChoose("process", n+1)
	p := s.procs()[who]
	label := s.d.labelOf(p, pre)
	if label == "Done" {
		verifReach("end")
		return
	}
	posts, errs := s.d.allSteps(p, pre)
	verifAssert(len(errs) == 0, "C15: no assertion of the specification fails from a state satisfying the invariant")
	for _, post := range posts {
		verifAssert(s.inv(post), "C15: every step of every process preserves the invariant ("+label+")")
		verifAssert(s.ec.specHolds(post, "Safety"), "C15: Safety holds after the step")
		// grants go only to the client at the head of the queue; the queue grows only at its tail
		zero := tla.MakeNumber(0)
		q0, q1 := pre.get("q").ApplyFunction(zero).AsTuple(), post.get("q").ApplyFunction(zero).AsTuple()
		for i := 1; i <= n; i++ {
			id := tla.MakeNumber(int32(i))
			g0 := lsCount(pre.get("network").ApplyFunction(id), tla.MakeNumber(3))
			g1 := lsCount(post.get("network").ApplyFunction(id), tla.MakeNumber(3))
			if g1 > g0 {
				verifAssert(q1.Len() > 0 && q1.Get(0).AsNumber() == int32(i), "C15: the lock is granted only to the client at the head of the queue (requested, not yet served)")
			}
		}
		if q1.Len() > q0.Len() {
			same := q1.Len() == q0.Len()+1
			for k := 0; k < q0.Len() && same; k++ {
				same = q1.Get(k).Equal(q0.Get(k))
			}
			verifAssert(same, "C15: waiting clients are queued in the order their requests reached the server")
		}
		if q1.Len() < q0.Len() {
			same := q1.Len() == q0.Len()-1
			for k := 0; k < q1.Len() && same; k++ {
				same = q1.Get(k).Equal(q0.Get(k + 1))
			}
			verifAssert(same, "C15: the queue is served from its head")
		}
	}
	verifReach("end")
}

// the initial state satisfies the invariant, and a bounded run from Init never leaves it (cross-check of lsInv)
func HarnessLocksvc_FromInit()     { lsFromInit(6) }
func HarnessLocksvc_FromInitDeep() { lsFromInit(12) }

func lsFromInit(steps int) {
	n := 1 + verifChoose("clients", 2)
	s := lsNew(n)
	st := newSpecState()
	for _, v := range specVariables {
		_ = v
	}
	inits := s.ec.specSuccessorsOf("Init")
	verifAssert(len(inits) == 1, "Init determines one state")
	st = inits[0]
	verifAssert(s.inv(st), "C15: Init satisfies the invariant")
	for step := 0; step < steps; step++ {
		who := verifNondetInt("who")
		verifAssume(who >= 0 && who <= n)
		var p *specProc
		for i, x := range s.procs() {
			if i == who {
				p = x
			}
		}
		if s.d.labelOf(p, st) == "Done" {
			continue
		}
		posts, errs := s.d.allSteps(p, st)
		verifAssert(len(errs) == 0, "C15: no assertion fails in a run from Init")
		if len(posts) == 0 {
			continue
		}
		k := verifNondetInt("which")
		verifAssume(k >= 0 && k < len(posts))
		for i, x := range posts {
			if i == k {
				st = x
			}
		}
		verifAssert(s.inv(st) && s.ec.specHolds(st, "Safety"), "C15: runs from Init stay inside the invariant and satisfy Safety")
	}
	verifReach("end")
}
