//go:build verif

package dqueue

// C16 / C02 for the distributed queue: generated AConsumer / AProducer (dqueue.go) stepped over the spec state of
// dqueue.tla (mapping macros TCPChannel = bounded FIFO per node, CyclicReads for the stream).

import (
	"errors"

	"github.com/DistCompiler/pgo/distsys"
	"github.com/DistCompiler/pgo/distsys/tla"
)

func init() {
	verifRegister("HarnessDqueue_Run", HarnessDqueue_Run)
	verifRegister("HarnessDqueue_Step", HarnessDqueue_Step)
}

type dqSys struct {
	d      *specDriver
	ec     *specCtx
	procs  []*specProc
	ncons  int
	buffer int
}

func dqNew(ncons, buffer int) *dqSys {
	d := &specDriver{oracle: &specOracle{}}
	cv := map[string]tla.Value{"BUFFER_SIZE": tla.MakeNumber(int32(buffer)), "NUM_CONSUMERS": tla.MakeNumber(int32(ncons)), "PRODUCER": tla.MakeNumber(0), "defaultInitValue": tla.Value{}}
	ec := &specCtx{consts: cv}
	d.eval = ec
	var consts []distsys.MPCalContextConfigFn
	for _, k := range []string{"BUFFER_SIZE", "NUM_CONSUMERS", "PRODUCER"} {
		consts = append(consts, distsys.DefineConstantValue(k, cv[k]))
	}
	s := &dqSys{d: d, ec: ec, ncons: ncons, buffer: buffer}
	net := func() distsys.ArchetypeResource { return &specMapped{d: d, name: "network", kind: mmChannel, bound: buffer} }
	mk := func(arch distsys.MPCalArchetype, self int32, locals []string, params ...distsys.MPCalContextConfigFn) {
		cfg := append([]distsys.MPCalContextConfigFn{distsys.SetFairnessCounter(d.oracle)}, consts...)
		ctx := distsys.NewMPCalContext(tla.MakeNumber(self), arch, append(cfg, params...)...)
		distsys.VerifPreRun(ctx)
		s.procs = append(s.procs, &specProc{ctx: ctx, arch: arch.Name, self: tla.MakeNumber(self), perProcess: true, pcVar: "pc", locals: locals})
	}
	mk(AProducer, 0, []string{"requester"}, distsys.EnsureArchetypeRefParam("net", net()),
		distsys.EnsureArchetypeRefParam("s", &specMapped{d: d, name: "stream", kind: mmCyclic, bound: buffer}))
	for i := 1; i <= ncons; i++ {
		mk(AConsumer, int32(i), nil, distsys.EnsureArchetypeRefParam("net", net()), distsys.EnsureArchetypeRefParam("proc", &specGlobal{d: d, name: "processor"}))
	}
	return s
}

func (s *dqSys) relation(p *specProc, pre *specState, posts []*specState, errs []error) {
	label := s.d.labelOf(p, pre)
	want := s.ec.specSuccessors(pre, label, p.self)
	verifAssert(len(errs) == 0 && !s.ec.assertFailed, "C16 dqueue: no assertion fails")
	for _, g := range posts {
		verifAssert(specContains(want, g), "C02 dqueue "+label+": every committed Go step is a step of the TLA+ action")
		net := g.get("network")
		for i := 0; i <= s.ncons; i++ {
			verifAssert(net.ApplyFunction(tla.MakeNumber(int32(i))).AsTuple().Len() <= s.buffer, "C16 dqueue: no buffer exceeds its bound")
		}
	}
	for _, w := range want {
		verifAssert(specContains(posts, w), "C02 dqueue "+label+": every step of the TLA+ action is taken by the Go code")
	}
	_ = errors.Is
}

// bounded runs from Init: every produced item is handed to exactly one requesting consumer, in production order
func HarnessDqueue_Run() {
	verifUnwind(100000, false)
	ncons := 1 + verifChoose("consumers", 2)
	buffer := 1 + verifChoose("buffer", 2)
	s := dqNew(ncons, buffer)
	st := s.ec.specSuccessorsOf("Init")[0]
	// start the stream at an arbitrary position
	start := verifNondetInt32("stream0")
	verifAssume(start >= 0 && start < int32(buffer))
	st.put("stream", tla.MakeNumber(start))
	// ghost state: requests in arrival order at the producer, items owed to each consumer
	var requests []int32
	expected := make([][]int32, ncons+1)
	produced := start
	zero := tla.MakeNumber(0)
	s.d.onStep = func(p *specProc, pre, post *specState) {
		label := s.d.labelOf(p, pre)
		self := p.self.AsNumber()
		switch label {
		case "c1":
			requests = append(requests, self)
		case "p2":
			produced = (produced + 1) % int32(buffer)
			req := pre.get("requester").ApplyFunction(zero).AsNumber()
			verifAssert(len(requests) > 0 && requests[0] == req, "C16 dqueue: requests are served in the order they reached the producer")
			if len(requests) > 0 {
				requests = requests[1:]
			}
			expected[req] = append(expected[req], produced)
			verifAssert(post.get("stream").AsNumber() == produced, "C16 dqueue: items are taken from the stream in order")
		case "c2":
			got := post.get("processor").AsNumber()
			verifAssert(len(expected[self]) > 0 && expected[self][0] == got, "C16 dqueue: each produced item is handed to exactly the consumer that requested it, in production order")
			if len(expected[self]) > 0 {
				expected[self] = expected[self][1:]
			}
		}
	}
	s.d.run(s.procs, st, 16, 2, s.relation)
	verifReach("end")
}

// single labels from arbitrary states (queue contents symbolic)
func HarnessDqueue_Step() {
	verifUnwind(100000, false)
	ncons := 2
	buffer := 1 + verifChoose("buffer", 2)
	s := dqNew(ncons, buffer)
	st := s.ec.specSuccessorsOf("Init")[0]
	who := verifChoose("process", ncons+1)
	p := s.procs[who]
	labels := []string{"c", "c1", "c2"}
	if who == 0 {
		labels = []string{"p", "p1", "p2"}
	}
	label := labels[verifChoose("label", 3)]
	st.put("pc", specPut(st.get("pc"), []tla.Value{p.self}, tla.MakeString(label)))
	net := st.get("network")
	for i := 0; i <= ncons; i++ {
		var q []tla.Value
		for k, n := 0, verifChoose("qlen", buffer+1); k < n; k++ {
			v := verifNondetInt32("qval")
			verifAssume(v >= 0 && v <= int32(ncons))
			q = append(q, tla.MakeNumber(v))
		}
		net = specPut(net, []tla.Value{tla.MakeNumber(int32(i))}, tla.MakeTuple(q...))
	}
	st.put("network", net)
	sv := verifNondetInt32("stream")
	verifAssume(sv >= 0 && sv < int32(buffer))
	st.put("stream", tla.MakeNumber(sv))
	rq := verifNondetInt32("requester")
	verifAssume(rq >= 1 && rq <= int32(ncons))
	st.put("requester", specPut(st.get("requester"), []tla.Value{tla.MakeNumber(0)}, tla.MakeNumber(rq)))
	posts, errs := s.d.allSteps(p, st)
	s.relation(p, st, posts, errs)
	verifReach("end")
}
