//go:build verif

package pbkvs

// C14 / C02 for the primary-backup store: the generated AReplica / AClient (pbkvs.go) are stepped one critical section
// at a time over the specification state of pbkvs.tla (mapping macros ReliableFIFOLink, NetworkToggle, PerfectFD,
// FileSystem, LeaderElection, NetworkBufferLength, Channel as spec-state resources).

import (
	"errors"

	"github.com/DistCompiler/pgo/distsys"
	"github.com/DistCompiler/pgo/distsys/tla"
)

func init() {
	verifRegister("HarnessPbkvs_Run", HarnessPbkvs_Run)
	verifRegister("HarnessPbkvs_RunFail", HarnessPbkvs_RunFail)
	verifRegister("HarnessPbkvs_StepRelation", HarnessPbkvs_StepRelation)
	verifRegister("HarnessPbkvs_LoopLabels", HarnessPbkvs_LoopLabels)
	verifRegister("HarnessPbkvs_RunDeep", HarnessPbkvs_RunDeep)
	verifRegister("HarnessPbkvs_RunFailDeep", HarnessPbkvs_RunFailDeep)
}

type pbSys struct {
	d     *specDriver
	ec    *specCtx
	procs []*specProc
	nrep  int
}

func pbNew(nrep, ncli int, exploreFail bool) *pbSys {
	d := &specDriver{oracle: &specOracle{}}
	cv := map[string]tla.Value{"NUM_REPLICAS": tla.MakeNumber(int32(nrep)), "NUM_CLIENTS": tla.MakeNumber(int32(ncli)),
		"EXPLORE_FAIL": tla.MakeBool(exploreFail), "DEBUG": tla.ModuleFALSE, "defaultInitValue": tla.Value{}}
	ec := &specCtx{consts: cv}
	d.eval = ec
	var consts []distsys.MPCalContextConfigFn
	for _, k := range []string{"NUM_REPLICAS", "NUM_CLIENTS", "EXPLORE_FAIL", "DEBUG"} {
		consts = append(consts, distsys.DefineConstantValue(k, cv[k]))
	}
	s := &pbSys{d: d, ec: ec, nrep: nrep}
	net := func() distsys.ArchetypeResource { return &specMapped{d: d, name: "network", kind: mmFIFOLink} }
	for i := 1; i <= nrep; i++ {
		cfg := append([]distsys.MPCalContextConfigFn{distsys.SetFairnessCounter(d.oracle)}, consts...)
		cfg = append(cfg,
			distsys.EnsureArchetypeRefParam("net", net()),
			distsys.EnsureArchetypeRefParam("fs", &specGlobal{d: d, name: "fs"}),
			distsys.EnsureArchetypeRefParam("fd", &specGlobal{d: d, name: "fd"}),
			distsys.EnsureArchetypeRefParam("netEnabled", &specMapped{d: d, name: "network", kind: mmNetToggle}),
			distsys.EnsureArchetypeRefParam("primary", &specMapped{d: d, name: "primary", kind: mmLeader}),
			distsys.EnsureArchetypeRefParam("netLen", &specMapped{d: d, name: "network", kind: mmNetLen}))
		ctx := distsys.NewMPCalContext(tla.MakeNumber(int32(i)), AReplica, cfg...)
		distsys.VerifPreRun(ctx)
		s.procs = append(s.procs, &specProc{ctx: ctx, arch: "AReplica", self: tla.MakeNumber(int32(i)), perProcess: true, pcVar: "pc",
			locals: []string{"req", "respBody", "respTyp", "idx", "repReq", "repResp", "resp", "replicaSet", "shouldSync", "lastPutBody", "replica"}})
	}
	for i := nrep + 1; i <= nrep+ncli; i++ {
		cfg := append([]distsys.MPCalContextConfigFn{distsys.SetFairnessCounter(d.oracle)}, consts...)
		cfg = append(cfg,
			distsys.EnsureArchetypeRefParam("net", net()),
			distsys.EnsureArchetypeRefParam("fd", &specGlobal{d: d, name: "fd"}),
			distsys.EnsureArchetypeRefParam("primary", &specMapped{d: d, name: "primary", kind: mmLeader}),
			distsys.EnsureArchetypeRefParam("netLen", &specMapped{d: d, name: "network", kind: mmNetLen}),
			distsys.EnsureArchetypeRefParam("input", &specMapped{d: d, name: "clientInput", kind: mmChannel}),
			distsys.EnsureArchetypeRefParam("output", &specGlobal{d: d, name: "clientOutput"}))
		ctx := distsys.NewMPCalContext(tla.MakeNumber(int32(i)), AClient, cfg...)
		distsys.VerifPreRun(ctx)
		s.procs = append(s.procs, &specProc{ctx: ctx, arch: "AClient", self: tla.MakeNumber(int32(i)), perProcess: true, pcVar: "pc",
			locals: []string{"req=req0", "resp=resp0", "msg", "replica=replica0", "idx=idx0"}})
	}
	return s
}

// check: the Go label's committed successors (over every choice resolution) are exactly the successors of the TLA+
// action; every successor satisfies the spec's invariant; no assertion fails.
func (s *pbSys) check(p *specProc, pre *specState, posts []*specState, errs []error) {
	label := s.d.labelOf(p, pre)
	want := s.ec.specSuccessors(pre, label, p.self)
	wantAssert := s.ec.assertFailed
	for _, e := range errs {
		verifAssert(errors.Is(e, distsys.ErrAssertionFailed) && wantAssert, "C02 pbkvs "+label+": Go fails only with an assertion failure, and only where the specification's assertion fails")
	}
	verifAssert(len(errs) == 0, "C14: no assertion written in the specification fails")
	for _, g := range posts {
		verifAssert(specContains(want, g), "C02 pbkvs "+label+": every committed Go step is a step of the TLA+ action")
		verifAssert(s.ec.specHolds(g, "ConsistencyOK"), "C14: whenever the primary is about to answer, every live replica holds the same value for every key (ConsistencyOK)")
	}
	for _, w := range want {
		verifAssert(specContains(posts, w), "C02 pbkvs "+label+": every step of the TLA+ action is taken by the Go code under some choice resolution")
	}
}

func pbRun(exploreFail bool, steps, budget int) {
	verifUnwind(100000, false)
	s := pbNew(2, 1, exploreFail)
	inits := s.ec.specSuccessorsOf("Init")
	verifAssert(len(inits) == 1, "Init determines one state")
	st := inits[0]
	// the spec's client input with symbolic values: Put k v1, Put k v2, Get k
	v1, v2 := tla.MakeString([]string{"A", "B"}[verifChoose("v1", 2)]), tla.MakeString([]string{"A", "B"}[verifChoose("v2", 2)])
	key := tla.MakeString("KEY1")
	mk := func(typ int32, body tla.Value) tla.Value {
		return tla.MakeRecord([]tla.RecordField{{Key: tla.MakeString("typ"), Value: tla.MakeNumber(typ)}, {Key: tla.MakeString("body"), Value: body}})
	}
	kv := func(v tla.Value) tla.Value {
		return tla.MakeRecord([]tla.RecordField{{Key: tla.MakeString("key"), Value: key}, {Key: tla.MakeString("value"), Value: v}})
	}
	st.put("clientInput", tla.MakeTuple(mk(3, kv(v1)), mk(3, kv(v2)), mk(1, tla.MakeRecord([]tla.RecordField{{Key: tla.MakeString("key"), Value: key}}))))
	// acknowledged client operations behave like a sequential map (one client: this is linearizability)
	final := s.d.run(s.procs, st, steps, budget, s.check)
	out := final.get("clientOutput")
	_ = out
	verifReach("end")
}

func HarnessPbkvs_Run()         { pbRun(false, 26, 1) }
func HarnessPbkvs_RunFail()     { pbRun(true, 26, 1) }
func HarnessPbkvs_RunDeep()     { pbRun(false, 60, 2) }
func HarnessPbkvs_RunFailDeep() { pbRun(true, 60, 2) }

// ---- C02: single labels from arbitrary type-correct states (request contents, versions, stored values symbolic) ----

func pbStr(tag string) tla.Value { return tla.MakeString([]string{"A", "B"}[verifChoose(tag, 2)]) }

func pbBody(tag string) tla.Value {
	v := verifNondetInt32(tag + ".version")
	verifAssume(v >= 0 && v <= 5)
	return tla.MakeRecord([]tla.RecordField{{Key: tla.MakeString("versionNumber"), Value: tla.MakeNumber(v)},
		{Key: tla.MakeString("key"), Value: tla.MakeString("KEY1")}, {Key: tla.MakeString("value"), Value: pbStr(tag + ".value")}})
}

func HarnessPbkvs_StepRelation() {
	verifUnwind(100000, false)
	label := []string{"handleBackup", "handlePrimary", "sndResp", "failLabel", "rcvMsg", "replicaLoop", "syncPrimary"}[verifChoose("label", 7)]
	s := pbNew(2, 1, label == "replicaLoop" && verifChoose("explorefail", 2) == 1)
	st := s.ec.specSuccessorsOf("Init")[0]
	self := int32(1 + verifChoose("self", 2))
	other := 3 - self
	p := s.procs[self-1]
	rec := func(kv ...tla.Value) tla.Value {
		var f []tla.RecordField
		for i := 0; i+1 < len(kv); i += 2 {
			f = append(f, tla.RecordField{Key: kv[i], Value: kv[i+1]})
		}
		return tla.MakeRecord(f)
	}
	S := tla.MakeString
	// an arbitrary request addressed to self
	srcTyp := int32(1 + verifChoose("srcTyp", 2)) // CLIENT_SRC / PRIMARY_SRC
	typ := []int32{1, 3, 5}[verifChoose("typ", 3)]  // GET_REQ / PUT_REQ / SYNC_REQ
	from := other
	if srcTyp == 1 {
		from = 3
	}
	req := rec(S("from"), tla.MakeNumber(from), S("to"), tla.MakeNumber(self), S("body"), pbBody("req"), S("srcTyp"), tla.MakeNumber(srcTyp), S("typ"), tla.MakeNumber(typ), S("id"), tla.MakeNumber(verifNondetInt32("id")))
	setLocal := func(name string, v tla.Value) {
		st.put(name, specPut(st.get(name), []tla.Value{tla.MakeNumber(self)}, v))
	}
	setLocal("pc", S(label))
	setLocal("req", req)
	setLocal("lastPutBody", pbBody("last"))
	setLocal("shouldSync", tla.MakeBool(verifNondetBool("shouldSync")))
	if label == "sndResp" {
		setLocal("respBody", rec(S("content"), pbStr("respBody")))
		setLocal("respTyp", tla.MakeNumber([]int32{2, 4}[verifChoose("respTyp", 2)]))
	}
	// stored value, failure detector, leadership arbitrary
	st.put("fs", specPut(st.get("fs"), []tla.Value{tla.MakeNumber(self), S("KEY1")}, pbStr("fs")))
	if verifNondetBool("otherFailed") {
		st.put("fd", specPut(st.get("fd"), []tla.Value{tla.MakeNumber(other)}, tla.ModuleTRUE))
		st.put("primary", tla.MakeSet(tla.MakeNumber(self)))
	}
	if label == "rcvMsg" {
		// a request is waiting in self's request mailbox
		idx := tla.MakeTuple(tla.MakeNumber(self), tla.MakeNumber(1))
		st.put("network", specPut(st.get("network"), []tla.Value{idx}, specLink(tla.MakeTuple(req), tla.ModuleTRUE)))
	}
	// assertion failures must coincide; type errors on states the spec cannot reach are excluded by construction:
	// handleBackup is only entered with a request from the primary, handlePrimary with one from a client
	if label == "handleBackup" {
		verifAssume(srcTyp == 2)
	}
	if label == "handlePrimary" {
		verifAssume(srcTyp == 1 && typ != 5)
	}
	posts, errs := s.d.allSteps(p, st)
	want := s.ec.specSuccessors(st, label, p.self)
	wantAssert := s.ec.assertFailed
	for _, e := range errs {
		verifAssert(errors.Is(e, distsys.ErrAssertionFailed) && wantAssert, "C02 pbkvs "+label+": Go fails only with an assertion failure, and only where the specification's assertion fails")
	}
	for _, g := range posts {
		verifAssert(specContains(want, g), "C02 pbkvs "+label+": every committed Go step is a step of the TLA+ action (arbitrary state)")
	}
	for _, w := range want {
		verifAssert(specContains(posts, w), "C02 pbkvs "+label+": every step of the TLA+ action is taken by the Go code (arbitrary state)")
	}
	verifReach("end")
}

// the four loop labels of AReplica (sync after fail-over, replication of a PUT) from arbitrary states, 3 replicas:
// loop index, the set of replicas still to answer, the stored version, the head of the response mailbox, the
// failure detector and the crash exploration are arbitrary.
func HarnessPbkvs_LoopLabels() {
	verifUnwind(100000, false)
	label := []string{"sndSyncReqLoop", "rcvSyncRespLoop", "sndReplicaReqLoop", "rcvReplicaRespLoop"}[verifChoose("label", 4)]
	const nrep = 3
	s := pbNew(nrep, 1, label != "rcvSyncRespLoop" && verifChoose("explorefail", 2) == 1)
	st := s.ec.specSuccessorsOf("Init")[0]
	self := int32(2) // the middle replica: the loops meet a smaller and a larger peer id
	p := s.procs[self-1]
	S, N := tla.MakeString, tla.MakeNumber
	rec := func(kv ...tla.Value) tla.Value {
		var f []tla.RecordField
		for i := 0; i+1 < len(kv); i += 2 {
			f = append(f, tla.RecordField{Key: kv[i], Value: kv[i+1]})
		}
		return tla.MakeRecord(f)
	}
	setLocal := func(name string, v tla.Value) { st.put(name, specPut(st.get(name), []tla.Value{N(self)}, v)) }
	setLocal("pc", S(label))
	reqID := verifNondetInt32("req.id")
	verifAssume(reqID >= 1 && reqID <= 4)
	setLocal("req", rec(S("from"), N(nrep+1), S("to"), N(self), S("body"), pbBody("req"), S("srcTyp"), N(1), S("typ"), N(3), S("id"), N(reqID)))
	setLocal("lastPutBody", pbBody("last"))
	receiving := label == "rcvSyncRespLoop" || label == "rcvReplicaRespLoop"
	// (the sending loops do not read replicaSet, the receiving loops do not read idx)
	var rs []tla.Value
	if receiving {
		setLocal("idx", N(nrep+1))
		for r := int32(1); r <= nrep; r++ {
			if r != self && verifChoose("inReplicaSet", 2) == 1 {
				rs = append(rs, N(r))
			}
		}
	} else {
		setLocal("idx", N(int32(1+verifChoose("idx", nrep+1))))
		rs = []tla.Value{N(1), N(3)}
	}
	setLocal("replicaSet", tla.MakeSet(rs...))
	fd := st.get("fd")
	for r := int32(1); r <= nrep; r++ {
		if r != self {
			fd = specPut(fd, []tla.Value{N(r)}, tla.MakeBool(verifChoose("fd", 2) == 1))
		}
	}
	st.put("fd", fd)
	if receiving {
		if verifChoose("mailbox", 2) == 1 {
			// the head of the response mailbox: a response of the expected kind, or one that trips the assertion
			from := int32(1 + verifChoose("resp.from", nrep))
			verifAssume(from != self)
			typ, id := int32(6), int32(3)
			body := pbBody("resp")
			src := int32(3)
			if label == "rcvReplicaRespLoop" {
				typ, id = 4, reqID
				body = rec(S("content"), S("ack-body"))
			}
			switch verifChoose("resp.shape", 5) { // as expected, or wrong in one field
			case 1:
				typ = 2
			case 2:
				id = 7
			case 3:
				src = 2
			case 4:
				if label == "rcvReplicaRespLoop" {
					body = rec(S("content"), S("other"))
				}
			}
			resp := rec(S("from"), N(from), S("to"), N(self), S("body"), body, S("srcTyp"), N(src), S("typ"), N(typ), S("id"), N(id))
			idx := tla.MakeTuple(N(self), N(2))
			st.put("network", specPut(st.get("network"), []tla.Value{idx}, specLink(tla.MakeTuple(resp), tla.ModuleTRUE)))
		}
	} else {
		// the request mailboxes of the other replicas may be disabled (crashed)
		for r := int32(1); r <= nrep; r++ {
			if r != self && verifChoose("peer.disabled", 2) == 1 {
				idx := tla.MakeTuple(N(r), N(1))
				st.put("network", specPut(st.get("network"), []tla.Value{idx}, specLink(tla.MakeTuple(), tla.ModuleFALSE)))
			}
		}
	}
	posts, errs := s.d.allSteps(p, st)
	want := s.ec.specSuccessors(st, label, p.self)
	wantAssert := s.ec.assertFailed
	for _, e := range errs {
		verifAssert(errors.Is(e, distsys.ErrAssertionFailed) && wantAssert, "C02 pbkvs "+label+": Go fails only with an assertion failure, and only where the specification's assertion fails")
	}
	verifAssert(!wantAssert || len(errs) > 0, "C02 pbkvs "+label+": where the specification's assertion fails, the Go code fails")
	for _, g := range posts {
		verifAssert(specContains(want, g), "C02 pbkvs "+label+": every committed Go step is a step of the TLA+ action (arbitrary state)")
	}
	for _, w := range want {
		verifAssert(specContains(posts, w), "C02 pbkvs "+label+": every step of the TLA+ action is taken by the Go code (arbitrary state)")
	}
	verifReach("end")
}
