//go:build verif

package raftkvs

// C01 for raftkvs.PersistentLog: the log resource keeps an in-memory list and mirrors every committed section into a
// badger store (one key per position). A failed attempt must leave neither the list nor the STORE changed; a commit
// makes all pushes and pops of the section durable, and nothing else. The store is the engine's badger model
// (engine/models_badger.go); natively an in-memory badger instance.

import (
	"bytes"
	"encoding/gob"
	"fmt"

	"github.com/DistCompiler/pgo/distsys"
	"github.com/DistCompiler/pgo/distsys/tla"
	"github.com/dgraph-io/badger/v3"
)

func init() {
	verifRegister("HarnessC01_PLog", HarnessC01_PLog)
	verifRegister("HarnessC01_PLogDeep", HarnessC01_PLogDeep)
	verifRegister("HarnessC01_PLogLong", HarnessC01_PLogLong)
}

func verifBadgerOpen() *badger.DB {
	db, err := badger.Open(badger.DefaultOptions("").WithInMemory(true).WithLogger(nil))
	if err != nil {
		panic(err)
	}
	return db
}

func verifBadgerGet(db *badger.DB, key string) ([]byte, bool) {
	var out []byte
	found := false
	err := db.View(func(txn *badger.Txn) error {
		item, err := txn.Get([]byte(key))
		if err == badger.ErrKeyNotFound {
			return nil
		}
		if err != nil {
			return err
		}
		found = true
		out, err = item.ValueCopy(nil)
		return err
	})
	if err != nil {
		panic(err)
	}
	return out, found
}

func plogIface() distsys.ArchetypeInterface {
	arch := distsys.MPCalArchetype{Name: "X", Label: "X.l", JumpTable: distsys.MakeMPCalJumpTable(), ProcTable: distsys.MakeMPCalProcTable(), PreAmble: func(distsys.ArchetypeInterface) {}}
	return distsys.NewMPCalContext(tla.MakeNumber(0), arch).IFace()
}

func plogCmd(cmd tla.Value, extraKey string, extra tla.Value) tla.Value {
	return tla.MakeRecord([]tla.RecordField{
		{Key: tla.MakeString("cmd"), Value: cmd},
		{Key: tla.MakeString(extraKey), Value: extra},
	})
}

func plogObserve(res *PersistentLog, db *badger.DB, iface distsys.ArchetypeInterface, committed []tla.Value, when string) {
	v, err := res.ReadValue(iface)
	verifAssert(err == nil, "reading the log does not fail")
	verifAssert(v.Equal(tla.MakeTuple(committed...)), "PersistentLog "+when+": the log read afterwards is the log of the last commit")
	res.Abort(iface) // the observing read-only section
	for i := 0; i < len(committed)+4; i++ {
		b, found := verifBadgerGet(db, fmt.Sprintf("raftkvs.plog.%v.%d", "p", i))
		if i < len(committed) {
			verifAssert(found, "PersistentLog "+when+": every committed position is in the store")
			if found {
				var e tla.Value
				derr := gob.NewDecoder(bytes.NewBuffer(b)).Decode(&e)
				verifAssert(derr == nil && e.Equal(committed[i]), "PersistentLog "+when+": the store holds the committed entry at each position")
			}
		} else {
			verifAssert(!found, "PersistentLog "+when+": the store holds nothing beyond the committed log (no write of a failed attempt, no popped entry)")
		}
	}
	verifReach("observe")
}

func plogRun(nsec, nops, prefill int) {
	db := verifBadgerOpen()
	res := NewPersistentLog("p", db).(*PersistentLog)
	iface := plogIface()
	var committed []tla.Value
	if prefill > 0 {
		// a first committed section that appends prefill entries, so that the symbolic sections work on a longer log
		var es []tla.Value
		for j := 0; j < prefill; j++ {
			es = append(es, tla.MakeNumber(verifNondetInt32("entry")))
		}
		_ = res.WriteValue(iface, plogCmd(logConcat, "entries", tla.MakeTuple(es...)))
		if ch := res.Commit(iface); ch != nil {
			<-ch
		}
		committed = es
		plogObserve(res, db, iface, committed, "after a commit")
	}
	for sec := 0; sec < nsec; sec++ {
		cur := append([]tla.Value{}, committed...)
		n := 1 + verifChoose("nops", nops)
		for k := 0; k < n; k++ {
			switch verifChoose("op", 3) {
			case 0: // append 1-2 entries
				cnt := 1 + verifChoose("nentries", 2)
				if len(cur)+cnt > plogMaxLen {
					continue // stated bound: the log never grows beyond plogMaxLen entries
				}
				var es []tla.Value
				for j := 0; j < cnt; j++ {
					es = append(es, tla.MakeNumber(verifNondetInt32("entry")))
				}
				err := res.WriteValue(iface, plogCmd(logConcat, "entries", tla.MakeTuple(es...)))
				verifAssert(err == nil, "log append does not fail")
				cur = append(cur, es...)
			case 1: // pop 1..2 entries (at most the current length)
				cnt := 1 + verifChoose("npop", 2)
				if cnt > len(cur) {
					cnt = len(cur)
				}
				err := res.WriteValue(iface, plogCmd(logPop, "cnt", tla.MakeNumber(int32(cnt))))
				verifAssert(err == nil, "log pop does not fail")
				cur = cur[:len(cur)-cnt]
			default: // read inside the section: sees the section's own writes
				v, err := res.ReadValue(iface)
				verifAssert(err == nil && v.Equal(tla.MakeTuple(cur...)), "PersistentLog: a read inside the section sees the section's own writes")
			}
		}
		if verifChoose("decision", 2) == 0 {
			// the attempt fails (false await, another resource refused)
			if ch := res.Abort(iface); ch != nil {
				<-ch
			}
			plogObserve(res, db, iface, committed, "after a failed attempt")
		} else {
			if ch := res.PreCommit(iface); ch != nil {
				verifAssert(<-ch == nil, "PersistentLog pre-commit does not refuse")
			}
			if ch := res.Commit(iface); ch != nil {
				<-ch
			}
			committed = cur
			plogObserve(res, db, iface, committed, "after a commit")
		}
	}
	verifReach("end")
}

// bound on the log length
const plogMaxLen = 12

func HarnessC01_PLog()     { plogRun(2, 2, 0) }
func HarnessC01_PLogLong() { plogRun(2, 2, 7) }
func HarnessC01_PLogDeep() { plogRun(3, 2, 0) }
