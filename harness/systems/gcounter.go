//go:build verif

package gcounter

// C16 for the CRDT-based counter, end to end on the REAL stack: the generated ANode (gcounter.go) of every node runs
// in the REAL MPCalContext.Run loop over the REAL resources it is deployed with (IncMap -> crdt resource holding a
// GCounter: listener, RPC server, broadcaster, merger) on the engine's net/rpc model. The environment is a symbolic
// sequence of events - a broadcast tick at node i, or nothing - interleaved round-robin with the nodes' critical
// sections (every critical section start is a scheduling point).
//
//   - a node's counter never decreases and never exceeds NUM_NODES (no state is invented)
//   - a node passes `wait` (Run returns) only when its counter reads NUM_NODES
//   - when every node has finished, all nodes read equal values (= NUM_NODES) and every Run has returned nil; runs in
//     which every node finishes exist (reach witness)

import (
	"github.com/DistCompiler/pgo/distsys"
	"github.com/DistCompiler/pgo/distsys/resources"
	"github.com/DistCompiler/pgo/distsys/tla"
)

func init() {
	verifRegister("HarnessGCounter_System", HarnessGCounter_System)
	verifRegister("HarnessGCounter_SystemDeep", HarnessGCounter_SystemDeep)
}

// every critical-section start is a scheduling point (the run loop itself never blocks: a failed await retries)
type gcYield struct{}

func (gcYield) BeginCriticalSection(string)             { verifYield() }
func (gcYield) NextFairnessCounter(string, uint) uint { return 0 }

func HarnessGCounter_System()     { gcSystem(2, 4) }
func HarnessGCounter_SystemDeep() { gcSystem(3, 6) }

func gcSystem(n, events int) {
	verifUnwind(1000000, false)
	addr := func(id tla.Value) string { return "node:" + id.String() }
	var ids []tla.Value
	for i := 1; i <= n; i++ {
		ids = append(ids, tla.MakeNumber(int32(i)))
	}
	crdts := make([]distsys.ArchetypeResource, n)
	ctxs := make([]*distsys.MPCalContext, n)
	done := make([]bool, n)
	errs := make([]error, n)
	for i := range ids {
		var peers []tla.Value
		for j := range ids {
			if j != i {
				peers = append(peers, ids[j])
			}
		}
		self := ids[i]
		crdts[i] = resources.NewCRDT(self, peers, addr, resources.GCounter{})
		res := crdts[i]
		ctxs[i] = distsys.NewMPCalContext(self, ANode,
			distsys.DefineConstantValue("NUM_NODES", tla.MakeNumber(int32(n))),
			distsys.DefineConstantValue("BENCH_NUM_ROUNDS", tla.MakeNumber(0)),
			distsys.SetFairnessCounter(gcYield{}),
			distsys.EnsureArchetypeRefParam("cntr", resources.NewIncMap(func(index tla.Value) distsys.ArchetypeResource {
				if !index.Equal(self) {
					panic("wrong index")
				}
				return res
			})),
			distsys.EnsureArchetypeRefParam("c", resources.NewDummy()))
	}
	for i := range ctxs {
		i := i
		go func() {
			errs[i] = ctxs[i].Run()
			done[i] = true
		}()
	}
	read := func(i int) int32 {
		v, _ := crdts[i].ReadValue(distsys.ArchetypeInterface{})
		return v.AsNumber()
	}
	last := make([]int32, n)
	observe := func() {
		for i := 0; i < n; i++ {
			v := read(i)
			verifAssert(v >= last[i], "C16 gcounter: a node's counter never decreases")
			verifAssert(v <= int32(n), "C16 gcounter: no increments are invented (the counter never exceeds NUM_NODES)")
			last[i] = v
			if done[i] {
				verifAssert(errs[i] == nil && v == int32(n), "C16 gcounter: a node finishes only when its counter reads NUM_NODES")
			}
		}
	}
	for step := 0; step < events; step++ {
		ev := verifChoose("event", n+1)
		if ev < n {
			verifFireTimerN("Ticker", ev)
		}
		for r := 0; r < 3; r++ {
			verifYield()
		}
		observe()
	}
	// updates stop; every node broadcasts (twice, so that merged state travels on), the system settles
	for r := 0; r < 2; r++ {
		for i := 0; i < n; i++ {
			verifFireTimerN("Ticker", i)
			for k := 0; k < 6; k++ {
				verifYield()
			}
			observe()
		}
	}
	// (termination of every node is not claimed: a node that has seen all increments finishes and closes its resource,
	// and a peer it never reached cannot learn its increment any more - under the default schedule all nodes do
	// finish, which the reach witness "all-finished" demands of the exploration as a whole)
	all := true
	for i := 0; i < n; i++ {
		all = all && done[i]
	}
	if all {
		verifReach("all-finished")
		for i := 0; i < n; i++ {
			verifAssert(errs[i] == nil && read(i) == int32(n), "C16 gcounter: nodes with equal knowledge read equal values (NUM_NODES)")
		}
	}
	verifReach("end")
	// (no Stop of unfinished nodes here: closing a CRDT resource waits for its broadcaster, which only notices at its
	// next tick, and ticks are events of this harness)
	if all {
		for i := range ctxs {
			ctxs[i].Stop()
		}
	}
}
