//go:build verif

package loadbalancer

// C16 / C02 for the load balancer: generated ALoadBalancer / AServer / AClient (load_balancer.go) stepped over the
// spec state of load_balancer.tla (mapping macros TCPChannel = bounded FIFO per node, WebPages = constant read).
// The checked-in TLA+ translation is of an older PGo vintage: it threads every resource access through global
// temporaries (mailboxesRead, mailboxesWrite, ...). They have no image in the generated Go and are left out of the
// state comparison (specIgnore); everything else (network, in, out, fs, pc, the archetype locals) is compared.

import (
	"errors"

	"github.com/DistCompiler/pgo/distsys"
	"github.com/DistCompiler/pgo/distsys/tla"
)

func init() {
	verifRegister("HarnessLB_Step", HarnessLB_Step)
	verifRegister("HarnessLB_Run", HarnessLB_Run)
	verifRegister("HarnessLB_RunDeep", HarnessLB_RunDeep)
}

type lbSys struct {
	d                  *specDriver
	ec                 *specCtx
	procs              []*specProc
	nsrv, ncli, buffer int
}

var lbS = tla.MakeString

func lbNum(n int32) tla.Value { return tla.MakeNumber(n) }

const (
	lbGetPage = 7
	lbWebPage = 42
)

func lbNew(nsrv, ncli, buffer int) *lbSys {
	d := &specDriver{oracle: &specOracle{}}
	cv := map[string]tla.Value{"BUFFER_SIZE": lbNum(int32(buffer)), "LoadBalancerId": lbNum(0), "NUM_SERVERS": lbNum(int32(nsrv)),
		"NUM_CLIENTS": lbNum(int32(ncli)), "GET_PAGE": lbNum(lbGetPage), "WEB_PAGE": lbNum(lbWebPage), "defaultInitValue": tla.Value{}}
	ec := &specCtx{consts: cv}
	d.eval = ec
	var consts []distsys.MPCalContextConfigFn
	for _, k := range []string{"BUFFER_SIZE", "LoadBalancerId", "NUM_SERVERS", "NUM_CLIENTS", "GET_PAGE", "WEB_PAGE"} {
		consts = append(consts, distsys.DefineConstantValue(k, cv[k]))
	}
	specIgnore = map[string]bool{}
	for _, v := range []string{"mailboxesRead", "mailboxesWrite", "mailboxesWrite0", "mailboxesRead0", "mailboxesWrite1", "file_systemRead",
		"mailboxesWrite2", "instreamRead", "mailboxesWrite3", "mailboxesRead1", "outstreamWrite", "mailboxesWrite4", "outstreamWrite0"} {
		specIgnore[v] = true
	}
	s := &lbSys{d: d, ec: ec, nsrv: nsrv, ncli: ncli, buffer: buffer}
	net := func() distsys.ArchetypeResource { return &specMapped{d: d, name: "network", kind: mmChannel, bound: buffer} }
	mk := func(arch distsys.MPCalArchetype, self int32, plain bool, locals []string, params ...distsys.MPCalContextConfigFn) {
		cfg := append([]distsys.MPCalContextConfigFn{distsys.SetFairnessCounter(d.oracle)}, consts...)
		ctx := distsys.NewMPCalContext(lbNum(self), arch, append(cfg, params...)...)
		distsys.VerifPreRun(ctx)
		s.procs = append(s.procs, &specProc{ctx: ctx, arch: arch.Name, self: lbNum(self), perProcess: true, plainLocals: plain, pcVar: "pc", locals: locals})
	}
	mk(ALoadBalancer, 0, true, []string{"msg=msg_", "next"}, distsys.EnsureArchetypeRefParam("mailboxes", net()))
	for i := 1; i <= nsrv; i++ {
		mk(AServer, int32(i), false, []string{"msg"}, distsys.EnsureArchetypeRefParam("mailboxes", net()),
			distsys.EnsureArchetypeRefParam("file_system", &specMapped{d: d, name: "fs", kind: mmConst, choices: lbNum(lbWebPage)}))
	}
	for i := nsrv + 1; i <= nsrv+ncli; i++ {
		mk(AClient, int32(i), false, []string{"req", "resp"}, distsys.EnsureArchetypeRefParam("mailboxes", net()),
			distsys.EnsureArchetypeRefParam("instream", &specGlobal{d: d, name: "in"}),
			distsys.EnsureArchetypeRefParam("outstream", &specGlobal{d: d, name: "out"}))
	}
	return s
}

func (s *lbSys) relation(p *specProc, pre *specState, posts []*specState, errs []error) {
	label := s.d.labelOf(p, pre)
	want := s.ec.specSuccessors(pre, label, p.self)
	wantAssert := s.ec.assertFailed
	for _, e := range errs {
		verifAssert(errors.Is(e, distsys.ErrAssertionFailed) && wantAssert, "C02 loadbalancer "+label+": Go fails only with an assertion failure, and only where the specification's assertion fails")
	}
	verifAssert(!wantAssert || len(errs) > 0, "C02 loadbalancer "+label+": where the specification's assertion fails, the Go code fails")
	for _, g := range posts {
		verifAssert(specContains(want, g), "C02 loadbalancer "+label+": every committed Go step is a step of the TLA+ action")
		net := g.get("network")
		for i := 0; i <= s.nsrv+s.ncli; i++ {
			verifAssert(net.ApplyFunction(lbNum(int32(i))).AsTuple().Len() <= s.buffer, "C16 loadbalancer: no buffer exceeds its bound")
		}
	}
	for _, w := range want {
		verifAssert(specContains(posts, w), "C02 loadbalancer "+label+": every step of the TLA+ action is taken by the Go code")
	}
}

func lbRange(tag string, lo, hi int32) int32 {
	v := verifNondetInt32(tag)
	verifAssume(v >= lo && v <= hi)
	return v
}

// a mailbox entry of one of the three shapes that are ever sent: a client request, a forwarded request, a page
func (s *lbSys) entryShape(tag string, shape int) tla.Value {
	switch shape {
	case 0:
		return tla.MakeRecord([]tla.RecordField{{Key: lbS("message_type"), Value: lbNum(lbRange(tag+".type", lbGetPage-1, lbGetPage))},
			{Key: lbS("client_id"), Value: lbNum(int32(s.nsrv + 1 + verifChoose(tag+".client", s.ncli)))}, {Key: lbS("path"), Value: lbNum(lbRange(tag+".path", 0, 3))}})
	case 1:
		return tla.MakeRecord([]tla.RecordField{{Key: lbS("message_id"), Value: lbNum(lbRange(tag+".mid", 1, int32(s.nsrv)))},
			{Key: lbS("client_id"), Value: lbNum(int32(s.nsrv + 1 + verifChoose(tag+".client", s.ncli)))}, {Key: lbS("path"), Value: lbNum(lbRange(tag+".path", 0, 3))}})
	}
	return lbNum(lbRange(tag+".page", lbWebPage-1, lbWebPage))
}

func (s *lbSys) entry(tag string) tla.Value { return s.entryShape(tag, verifChoose(tag+".shape", 3)) }

// single labels from arbitrary states: every mailbox holds <= BUFFER_SIZE arbitrary entries
func HarnessLB_Step() {
	verifUnwind(1000000, false)
	// (instance sizes are pairwise different so that a constant used in place of another one shows)
	nsrv, ncli := 2, 3
	buffer := 1 + verifChoose("buffer", 2)
	s := lbNew(nsrv, ncli, buffer)
	st := s.ec.specSuccessorsOf("Init")[0]
	who := verifChoose("process", 3)
	p := s.procs[[]int{0, 1, 1 + nsrv}[who]]
	label := [][]string{{"main", "rcvMsg", "sendServer"}, {"serverLoop", "rcvReq", "sendPage"}, {"clientLoop", "clientRequest", "clientReceive"}}[who][verifChoose("label", 3)]
	// shape >= 0: the entries this label takes apart are records of the shape the sender produces
	fill := func(tag string, node int32, shape int) {
		var q []tla.Value
		for k, n := 0, verifChoose(tag+".len", buffer+1); k < n; k++ {
			if shape >= 0 {
				q = append(q, s.entryShape(tag, shape))
			} else {
				q = append(q, s.entry(tag))
			}
		}
		st.put("network", specPut(st.get("network"), []tla.Value{lbNum(node)}, tla.MakeTuple(q...)))
	}
	switch label {
	case "rcvMsg":
		fill("own", 0, 0)
	case "sendServer":
		st.put("msg_", s.entryShape("msg", 0))
		nx := int32(verifChoose("next", nsrv+1))
		st.put("next", lbNum(nx))
		fill("dst", nx%int32(nsrv)+1, -1)
	case "rcvReq":
		fill("own", 1, 1)
	case "sendPage":
		m := s.entryShape("msg", 1)
		st.put("msg", specPut(st.get("msg"), []tla.Value{p.self}, m))
		fill("dst", m.ApplyFunction(lbS("client_id")).AsNumber(), -1)
	case "clientRequest":
		st.put("in", lbNum(lbRange("in", 0, 3)))
		fill("dst", 0, -1)
	case "clientReceive":
		fill("own", p.self.AsNumber(), -1)
	}
	st.put("pc", specPut(st.get("pc"), []tla.Value{p.self}, lbS(label)))
	posts, errs := s.d.allSteps(p, st)
	s.relation(p, st, posts, errs)
	verifReach("end")
}

func HarnessLB_Run()     { lbRun(2, 20, 2) }
func HarnessLB_RunDeep() { lbRun(3, 48, 3) }

// runs from Init: every request is answered by exactly one server, no buffer exceeds its bound, no assertion fails
func lbRun(maxCli, steps, budget int) {
	verifUnwind(1000000, false)
	nsrv := 2
	ncli := 1 + verifChoose("clients", maxCli)
	buffer := 1 + verifChoose("buffer", 2)
	s := lbNew(nsrv, ncli, buffer)
	st := s.ec.specSuccessorsOf("Init")[0]
	n := nsrv + ncli + 1
	outstanding := make([]int, n) // requests of client c that were sent and not yet received back
	taken := make([]int, n)       // ... of which a server has picked up
	answered := make([]int, n)    // pages sent to client c and not yet received
	s.d.onStep = func(p *specProc, pre, post *specState) {
		label := s.d.labelOf(p, pre)
		switch label {
		case "clientRequest":
			c := p.self.AsNumber()
			verifAssert(outstanding[c] == 0, "C16 loadbalancer: a client has at most one request in flight")
			outstanding[c]++
		case "rcvReq":
			c := post.get("msg").ApplyFunction(p.self).ApplyFunction(lbS("client_id")).AsNumber()
			taken[c]++
			verifAssert(taken[c] <= outstanding[c], "C16 loadbalancer: every request is handed to exactly one server")
		case "sendPage":
			c := pre.get("msg").ApplyFunction(p.self).ApplyFunction(lbS("client_id")).AsNumber()
			answered[c]++
			verifAssert(answered[c] <= outstanding[c], "C16 loadbalancer: every request is answered by exactly one server")
		case "clientReceive":
			c := p.self.AsNumber()
			verifAssert(outstanding[c] == 1 && taken[c] == 1 && answered[c] == 1, "C16 loadbalancer: the client receives exactly the one answer to its request")
			verifAssert(post.get("out").Equal(lbNum(lbWebPage)), "C16 loadbalancer: the answer is the page")
			outstanding[c], taken[c], answered[c] = 0, 0, 0
			verifReach("answered")
		case "sendServer":
			nx := post.get("next").AsNumber()
			verifAssert(nx >= 1 && nx <= int32(nsrv), "C16 loadbalancer: requests are forwarded to a server")
		}
	}
	s.d.run(s.procs, st, steps, budget, func(p *specProc, pre *specState, posts []*specState, errs []error) {
		verifAssert(len(errs) == 0, "C16 loadbalancer: no assertion written in the specification fails")
		s.relation(p, pre, posts, errs)
	})
	verifReach("end")
}
