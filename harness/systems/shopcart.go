//go:build verif

package shopcart

// C16 for the CRDT-based shopping cart, end to end on the REAL stack and in the configuration it is deployed with
// (bootstrap.go: ANodeBench over IncMap -> crdt resource holding an LWWSet, output channel, dummy history): the
// generated ANodeBench of every node runs in the REAL MPCalContext.Run loop on the engine's net/rpc model. The
// environment is a symbolic sequence of broadcast ticks; every critical-section start is a scheduling point.
//
//   - the set a node reads only grows (the workload only adds) and holds only values some node has added
//   - a node finishes a round (AddFinish) only when its set holds every node's value of that round
//   - when every node has finished, all nodes read equal sets and every Run has returned nil; runs in which every
//     node finishes exist (reach witness)

import (
	"github.com/DistCompiler/pgo/distsys"
	"github.com/DistCompiler/pgo/distsys/resources"
	"github.com/DistCompiler/pgo/distsys/tla"
)

func init() {
	verifRegister("HarnessShopcart_System", HarnessShopcart_System)
	verifRegister("HarnessShopcart_SystemDeep", HarnessShopcart_SystemDeep)
	verifRegister("HarnessShopcart_AWORSet", HarnessShopcart_AWORSet)
}

type scYield struct{}

func (scYield) BeginCriticalSection(string)             { verifYield() }
func (scYield) NextFairnessCounter(string, uint) uint { return 0 }

func HarnessShopcart_System()     { scSystem(2, 1, 4) }
func HarnessShopcart_SystemDeep() { scSystem(2, 2, 6) }

func scSystem(n, rounds, events int) {
	verifUnwind(1000000, false)
	addr := func(id tla.Value) string { return "node:" + id.String() }
	var ids []tla.Value
	for i := 1; i <= n; i++ {
		ids = append(ids, tla.MakeNumber(int32(i)))
	}
	crdts := make([]distsys.ArchetypeResource, n)
	ctxs := make([]*distsys.MPCalContext, n)
	outs := make([]chan tla.Value, n)
	done := make([]bool, n)
	errs := make([]error, n)
	for i := range ids {
		self := ids[i]
		// (as bootstrap.go: the peer list includes the node itself)
		crdts[i] = resources.NewCRDT(self, ids, addr, resources.LWWSet{})
		res := crdts[i]
		outs[i] = make(chan tla.Value, 100)
		ctxs[i] = distsys.NewMPCalContext(self, ANodeBench,
			distsys.DefineConstantValue("NumNodes", tla.MakeNumber(int32(n))),
			distsys.DefineConstantValue("ElemSet", tla.MakeSet()),
			distsys.DefineConstantValue("BenchNumRounds", tla.MakeNumber(int32(rounds))),
			distsys.SetFairnessCounter(scYield{}),
			distsys.EnsureArchetypeRefParam("crdt", resources.NewIncMap(func(index tla.Value) distsys.ArchetypeResource {
				if !index.Equal(self) {
					panic("wrong index")
				}
				return res
			})),
			distsys.EnsureArchetypeRefParam("out", resources.NewOutputChan(outs[i])),
			distsys.EnsureArchetypeRefParam("c", resources.NewDummy(resources.WithDummyValue(tla.MakeSet()))))
	}
	for i := range ctxs {
		i := i
		go func() {
			errs[i] = ctxs[i].Run()
			done[i] = true
		}()
	}
	read := func(i int) tla.Value {
		v, _ := crdts[i].ReadValue(distsys.ArchetypeInterface{})
		return v
	}
	// every value any node may ever add: GetVal(node, round) = round*NumNodes + (node-1)
	var universe []tla.Value
	for r := 0; r < rounds; r++ {
		for k := 0; k < n; k++ {
			universe = append(universe, tla.MakeNumber(int32(r*n+k)))
		}
	}
	all := tla.MakeSet(universe...)
	last := make([]tla.Value, n)
	finished := make([]int, n) // rounds whose AddFinish event node i has emitted
	for i := range last {
		last[i] = tla.MakeSet()
	}
	observe := func() {
		for i := 0; i < n; i++ {
			v := read(i)
			verifAssert(tla.ModuleSubsetOrEqualSymbol(last[i], v).AsBool(), "C16 shopcart: the set a node reads only grows under an add-only workload")
			verifAssert(tla.ModuleSubsetOrEqualSymbol(v, all).AsBool(), "C16 shopcart: a node's set holds only values that some node adds")
			last[i] = v
			for len(outs[i]) > 0 {
				e := <-outs[i]
				if e.ApplyFunction(tla.MakeString("event")).Equal(tla.MakeNumber(1)) { // AddFinish
					r := finished[i]
					for k := 0; k < n; k++ {
						verifAssert(tla.ModuleInSymbol(tla.MakeNumber(int32(r*n+k)), v).AsBool(), "C16 shopcart: a node finishes a round only when its set holds every node's value of that round")
					}
					finished[i]++
				}
			}
		}
	}
	for step := 0; step < events; step++ {
		ev := verifChoose("event", n+1)
		if ev < n {
			verifFireTimerN("Ticker", ev)
		}
		for r := 0; r < 3; r++ {
			verifYield()
		}
		observe()
	}
	for r := 0; r < 2*rounds; r++ {
		for i := 0; i < n; i++ {
			verifFireTimerN("Ticker", i)
			for k := 0; k < 6; k++ {
				verifYield()
			}
			observe()
		}
	}
	// (termination of every node is not claimed - see gcounter.go; the reach witness "all-finished" demands that runs in
	// which every node finishes exist)
	allDone := true
	for i := 0; i < n; i++ {
		allDone = allDone && done[i]
	}
	if allDone {
		verifReach("all-finished")
		for i := 0; i < n; i++ {
			verifAssert(errs[i] == nil && read(i).Equal(read(0)) && read(i).Equal(all), "C16 shopcart: nodes with equal knowledge read equal sets")
		}
	}
	verifReach("end")
	// (no Stop of unfinished nodes here: closing a CRDT resource waits for its broadcaster, which only notices at its
	// next tick, and ticks are events of this harness)
	if allDone {
		for i := range ctxs {
			ctxs[i].Stop()
		}
	}
}

// The cart as shopcart.tla specifies it: the generated ANode (commands from an input queue applied to an add-wins
// observed-remove set) over the REAL crdt resource holding an AWORSet, 3 nodes. The environment is a symbolic sequence
// of events: an add or a remove of the one element arrives at node 1 or node 3, or a broadcast tick at node 1, 2 or 3
// (the first event is an add at node 1). Once every command has been applied and every node has broadcast twice, all
// replicas know every update: they must read equal carts.
func HarnessShopcart_AWORSet() {
	verifUnwind(1000000, false)
	const n = 3
	addr := func(id tla.Value) string { return "node:" + id.String() }
	var ids []tla.Value
	for i := 1; i <= n; i++ {
		ids = append(ids, tla.MakeNumber(int32(i)))
	}
	iface0 := distsys.NewMPCalContextWithoutArchetype().IFace()
	elem := tla.MakeString("1")
	crdts := make([]distsys.ArchetypeResource, n)
	ins := make([]chan tla.Value, n)
	outs := make([]chan tla.Value, n)
	for i := range ids {
		var peers []tla.Value
		for j := range ids {
			if j != i {
				peers = append(peers, ids[j])
			}
		}
		self := ids[i]
		crdts[i] = resources.NewCRDT(self, peers, addr, resources.AWORSet{})
		res := crdts[i]
		ins[i] = make(chan tla.Value, 8)
		outs[i] = make(chan tla.Value, 100)
		ctx := distsys.NewMPCalContext(self, ANode,
			distsys.DefineConstantValue("NumNodes", tla.MakeNumber(n)),
			distsys.DefineConstantValue("ElemSet", tla.MakeSet(elem)),
			distsys.DefineConstantValue("BenchNumRounds", tla.MakeNumber(0)),
			distsys.SetFairnessCounter(scYield{}),
			distsys.EnsureArchetypeRefParam("crdt", resources.NewIncMap(func(index tla.Value) distsys.ArchetypeResource {
				if !index.Equal(self) {
					panic("wrong index")
				}
				return res
			})),
			distsys.EnsureArchetypeRefParam("in", resources.NewInputChan(ins[i])),
			distsys.EnsureArchetypeRefParam("out", resources.NewOutputChan(outs[i])))
		go func() { _ = ctx.Run() }()
	}
	read := func(i int) tla.Value {
		v, _ := crdts[i].ReadValue(distsys.ArchetypeInterface{})
		return v
	}
	settle := func(k int) {
		for y := 0; y < k; y++ {
			verifYield()
		}
	}
	command := func(node int, remove bool) {
		cmd := AddCmd(iface0)
		if remove {
			cmd = RemoveCmd(iface0)
		}
		ins[node] <- tla.MakeRecord([]tla.RecordField{{Key: tla.MakeString("cmd"), Value: cmd}, {Key: tla.MakeString("elem"), Value: elem}})
	}
	command(0, false)
	settle(4)
	for step := 0; step < 5; step++ {
		switch ev := verifChoose("event", 7); ev {
		case 0, 1, 2:
			verifFireTimerN("Ticker", ev)
		case 3:
			command(0, false)
		case 4:
			command(0, true)
		case 5:
			command(2, false)
		case 6:
			command(2, true)
		}
		settle(6)
		for i := 0; i < n; i++ {
			verifAssert(tla.ModuleSubsetOrEqualSymbol(read(i), tla.MakeSet(elem)).AsBool(), "C16 shopcart (AWORSet): a cart holds only elements that were added")
		}
	}
	for r := 0; r < 2; r++ {
		for i := 0; i < n; i++ {
			verifFireTimerN("Ticker", i)
			settle(8)
		}
	}
	applied := true
	for i := 0; i < n; i++ {
		applied = applied && len(ins[i]) == 0
	}
	if applied {
		verifReach("all-applied")
		for i := 1; i < n; i++ {
			verifAssert(read(i).Equal(read(0)), "C16 shopcart (AWORSet): once every command is applied and every node has broadcast, replicas with equal knowledge read equal carts")
		}
	}
	verifReach("end")
}
