//go:build verif

package tla

// C05: equality, hashing and wire encoding are coherent (uses the shape generator and reference model of c03.go).

func init() {
	verifRegister("HarnessC05_EqLaws", HarnessC05_EqLaws)
	verifRegister("HarnessC05_Order", HarnessC05_Order)
	verifRegister("HarnessC05_CrossKind", HarnessC05_CrossKind)
	verifRegister("HarnessC05_Gob", HarnessC05_Gob)
	verifRegister("HarnessC05_GobCausal", HarnessC05_GobCausal)
	verifRegister("HarnessC05_VClock", HarnessC05_VClock)
}

var c05Shapes = []int{shBool, shInt, shStr, shSet0, shSetI1, shSetI2, shSetI3, shSetS2, shSetSet, shTup0, shTupI1, shTupI2, shTupS2, shFn0, shFnII1, shFnII2, shRecA, shRecAB, shSetB2}

// Equal is an equivalence that agrees with the reference model; equal values hash equally.
func HarnessC05_EqLaws() {
	sh := c05Shapes[verifChoose("shape", len(c05Shapes))]
	a, ra := c03Mk("a", sh)
	b, rb := c03Mk("b", sh)
	verifAssert(a.Equal(a), "Equal is reflexive")
	ab, ba := a.Equal(b), b.Equal(a)
	verifAssert(ab == ba, "Equal is symmetric")
	verifAssert(ab == refEq(ra, rb), "Equal agrees with structural equality of the reference model")
	if ab {
		verifAssert(a.Hash() == b.Hash(), "equal values hash equally")
	}
	if verifChoose("triple", 2) == 1 && sh != shSetI3 && sh != shSetSet {
		c, _ := c03Mk("c", sh)
		if ab && b.Equal(c) {
			verifAssert(a.Equal(c), "Equal is transitive")
			verifAssert(a.Hash() == c.Hash(), "equal values hash equally (transitive)")
		}
	}
	verifReach("end")
}

var c05Perms = [][]int{{0, 1, 2}, {0, 2, 1}, {1, 0, 2}, {1, 2, 0}, {2, 0, 1}, {2, 1, 0}}

// two constructions of the same collection in different insertion orders are Equal and hash equally
func HarnessC05_Order() {
	kind := verifChoose("kind", 5)
	perm := c05Perms[verifChoose("perm", 6)]
	var es []Value
	for i := 0; i < 3; i++ {
		switch kind {
		case 0, 2, 3:
			e, _ := c03Int("e")
			es = append(es, e)
		case 1:
			e, _ := c03Mk("e", shSetI2)
			es = append(es, e)
		case 4:
			e, _ := c03Mk("e", shTupI2)
			es = append(es, e)
		}
	}
	var x, y Value
	switch kind {
	case 0, 1, 4:
		x = MakeSet(es[0], es[1], es[2])
		y = MakeSet(es[perm[0]], es[perm[1]], es[perm[2]])
	case 2:
		// functions: distinct keys, values symbolic
		k0, k1, k2 := es[0].AsNumber(), es[1].AsNumber(), es[2].AsNumber()
		verifAssume(k0 != k1 && k0 != k2 && k1 != k2)
		var vs []Value
		for i := 0; i < 3; i++ {
			v, _ := c03Int("v")
			vs = append(vs, v)
		}
		x = MakeRecord([]RecordField{{es[0], vs[0]}, {es[1], vs[1]}, {es[2], vs[2]}})
		y = MakeRecord([]RecordField{{es[perm[0]], vs[perm[0]]}, {es[perm[1]], vs[perm[1]]}, {es[perm[2]], vs[perm[2]]}})
	case 3:
		// the same set reached through different operators
		x = ModuleUnionSymbol(MakeSet(es[0]), MakeSet(es[1], es[2]))
		y = ModuleBackslashSymbol(MakeSet(es[perm[0]], es[perm[1]], es[perm[2]], MakeString("zz")), MakeSet(MakeString("zz")))
	}
	verifAssert(x.Equal(y) && y.Equal(x), "construction order does not affect equality")
	verifAssert(x.Hash() == y.Hash(), "construction order does not affect the hash")
	verifAssert(c03NoDup(toRef(x)) && c03NoDup(toRef(y)), "a set never holds two equal members")
	// membership / lookup agree with equality
	probe, rprobe := c03Int("probe")
	if kind == 0 || kind == 3 {
		verifAssert(ModuleInSymbol(probe, x).AsBool() == refIn(rprobe, toRef(y)), "membership agrees with equality")
	}
	verifReach("end")
}

// values of different kinds (and the nil default value) are unequal, symmetrically, without error
func HarnessC05_CrossKind() {
	kinds := []int{shBool, shInt, shStr, shSetI1, shTupI1, shFnII1, shSet0, shTup0, shFn0}
	i, j := verifChoose("i", len(kinds)+1), verifChoose("j", len(kinds)+1)
	var a, b Value
	if i < len(kinds) {
		a, _ = c03Mk("a", kinds[i])
	}
	if j < len(kinds) {
		b, _ = c03Mk("b", kinds[j])
	}
	ab, ba := a.Equal(b), b.Equal(a)
	verifAssert(ab == ba, "Equal is symmetric across kinds")
	if ab {
		verifAssert(a.Hash() == b.Hash(), "equal values hash equally (across kinds)")
	}
	verifReach("end")
}

func c05RoundTrip(v Value) (Value, bool) {
	blob, err := v.GobEncode()
	if err != nil {
		return Value{}, false
	}
	var out Value
	if err := out.GobDecode(blob); err != nil {
		return Value{}, false
	}
	return out, true
}

// decode(encode(v)) is Equal to v and hashes equally, for every shape
func HarnessC05_Gob() {
	sh := c05Shapes[verifChoose("shape", len(c05Shapes))]
	v, rv0 := c03Mk("v", sh)
	out, ok := c05RoundTrip(v)
	verifAssert(ok, "gob round trip does not fail")
	if ok {
		verifAssert(out.Equal(v) && v.Equal(out), "decoded value equals the encoded one")
		verifAssert(out.Hash() == v.Hash(), "decoded value hashes like the encoded one")
		verifAssert(refEq(toRef(out), rv0), "decoded value denotes the same TLA+ value")
	}
	verifReach("end")
}

// the same through the causal (vector clock) wrapper, which also round-trips its clock
func HarnessC05_GobCausal() {
	saved := vClocksEnabled
	vClocksEnabled = true
	defer func() { vClocksEnabled = saved }()
	sh := []int{shInt, shStr, shSetI2, shTupI2, shFnII1, shRecAB}[verifChoose("shape", 6)]
	v, rv0 := c03Mk("v", sh)
	self, _ := c03Int("self")
	n := 1 + verifChoose("incs", 2)
	var clk VClock
	for i := 0; i < n; i++ {
		clk = clk.Inc("A", self)
	}
	w := WrapCausal(v, clk)
	verifAssert(w.Equal(v) && v.Equal(w), "causal wrapper is invisible to equality")
	verifAssert(w.Hash() == v.Hash(), "causal wrapper is invisible to hashing")
	out, ok := c05RoundTrip(w)
	verifAssert(ok, "gob round trip of a wrapped value does not fail")
	if ok {
		verifAssert(out.Equal(v) && refEq(toRef(out.StripVClock()), rv0), "decoded wrapped value equals the original")
		c := out.GetVClock()
		verifAssert(c != nil && c.Get("A", self) == n, "vector clock survives the round trip")
	}
	verifReach("end")
}

// VClock: Inc/Merge/Get and its own gob codec
func HarnessC05_VClock() {
	s1, _ := c03Int("s1")
	s2, _ := c03Int("s2")
	var a, b VClock
	na, nb := verifChoose("na", 3), verifChoose("nb", 3)
	for i := 0; i < na; i++ {
		a = a.Inc("A", s1)
	}
	for i := 0; i < nb; i++ {
		b = b.Inc("A", s2)
	}
	if verifChoose("extra", 2) == 1 {
		b = b.Inc("B", s1)
	}
	m1, m2 := a.Merge(b), b.Merge(a)
	for _, k := range []Value{s1, s2} {
		wa, wb := a.Get("A", k), b.Get("A", k)
		w := wa
		if wb > w {
			w = wb
		}
		verifAssert(m1.Get("A", k) == w && m2.Get("A", k) == w, "VClock.Merge is the point-wise maximum, commutatively")
	}
	verifAssert(m1.Get("B", s1) == b.Get("B", s1), "VClock.Merge keeps components present on one side only")
	blob, err := m1.GobEncode()
	verifAssert(err == nil, "VClock encodes")
	var out VClock
	verifAssert(out.GobDecode(blob) == nil, "VClock decodes")
	verifAssert(out.Get("A", s1) == m1.Get("A", s1) && out.Get("A", s2) == m1.Get("A", s2) && out.Get("B", s1) == m1.Get("B", s1), "VClock survives gob")
	verifReach("end")
}
