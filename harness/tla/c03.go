//go:build verif

package tla

// C03: TLA+ operators evaluate as TLA+ defines them, or fail loudly.
// Differential harnesses: the REAL operator (symbols.go / builtins.go / value.go through the real immutable
// containers) against a deliberately naive reference model (refval: unsorted slices, structural equality).

import (
	"errors"
	"math"
)

func init() {
	verifRegister("HarnessC03_Arith", HarnessC03_Arith)
	verifRegister("HarnessC03_DotDot", HarnessC03_DotDot)
	verifRegister("HarnessC03_Unary", HarnessC03_Unary)
	verifRegister("HarnessC03_Binary", HarnessC03_Binary)
	verifRegister("HarnessC03_SubSeq", HarnessC03_SubSeq)
	verifRegister("HarnessC03_Builtins", HarnessC03_Builtins)
	verifRegister("HarnessC03_Nested", HarnessC03_Nested)
}

// ---------------------------------------------------------------- reference model

type rvKind int

const (
	rkNil rvKind = iota
	rkBool
	rkInt
	rkStr
	rkSet
	rkTup
	rkFn
)

type rv struct {
	k      rvKind
	b      bool
	n      int64
	s      string
	el     []rv // set members (duplicates allowed, set semantics) or tuple elements
	ks, vs []rv // function: first matching key wins
}

func rB(b bool) rv    { return rv{k: rkBool, b: b} }
func rN(n int64) rv   { return rv{k: rkInt, n: n} }
func rS(s string) rv  { return rv{k: rkStr, s: s} }
func rSet(e ...rv) rv { return rv{k: rkSet, el: e} }
func rTup(e ...rv) rv { return rv{k: rkTup, el: e} }

func refIn(x rv, s rv) bool {
	for _, e := range s.el {
		if refEq(x, e) {
			return true
		}
	}
	return false
}

func refSubset(a, b rv) bool {
	for _, e := range a.el {
		if !refIn(e, b) {
			return false
		}
	}
	return true
}

func refLookup(f rv, k rv) (rv, bool) {
	for i := range f.ks {
		if refEq(f.ks[i], k) {
			return f.vs[i], true
		}
	}
	return rv{}, false
}

func refEq(a, b rv) bool {
	if a.k != b.k {
		return false
	}
	switch a.k {
	case rkNil:
		return true
	case rkBool:
		return a.b == b.b
	case rkInt:
		return a.n == b.n
	case rkStr:
		return a.s == b.s
	case rkSet:
		return refSubset(a, b) && refSubset(b, a)
	case rkTup:
		if len(a.el) != len(b.el) {
			return false
		}
		for i := range a.el {
			if !refEq(a.el[i], b.el[i]) {
				return false
			}
		}
		return true
	case rkFn:
		for i := range a.ks {
			v, ok := refLookup(b, a.ks[i])
			if !ok {
				return false
			}
			av, _ := refLookup(a, a.ks[i])
			if !refEq(av, v) {
				return false
			}
		}
		for i := range b.ks {
			if _, ok := refLookup(a, b.ks[i]); !ok {
				return false
			}
		}
		return true
	}
	return false
}

func refCard(s rv) int64 {
	var n int64
	for i, e := range s.el {
		dup := false
		for j := 0; j < i; j++ {
			if refEq(s.el[j], e) {
				dup = true
			}
		}
		if !dup {
			n++
		}
	}
	return n
}

// toRef converts a runtime value using exported accessors only.
func toRef(v Value) rv {
	switch {
	case v.IsBool():
		return rB(v.AsBool())
	case v.IsNumber():
		return rN(int64(v.AsNumber()))
	case v.IsString():
		return rS(v.AsString())
	case v.IsSet():
		r := rv{k: rkSet}
		it := v.AsSet().Iterator()
		for !it.Done() {
			k, _, _ := it.Next()
			r.el = append(r.el, toRef(k))
		}
		return r
	case v.IsTuple():
		r := rv{k: rkTup}
		it := v.AsTuple().Iterator()
		for !it.Done() {
			_, e := it.Next()
			r.el = append(r.el, toRef(e))
		}
		return r
	case v.IsFunction():
		r := rv{k: rkFn}
		it := v.AsFunction().Iterator()
		for !it.Done() {
			k, val, _ := it.Next()
			r.ks = append(r.ks, toRef(k))
			r.vs = append(r.vs, toRef(val))
		}
		return r
	}
	return rv{k: rkNil}
}

// a real set/function must not hold two equal members/keys
func c03NoDup(r rv) bool {
	switch r.k {
	case rkSet:
		for i := range r.el {
			for j := 0; j < i; j++ {
				if refEq(r.el[i], r.el[j]) {
					return false
				}
			}
			if !c03NoDup(r.el[i]) {
				return false
			}
		}
	case rkTup:
		for i := range r.el {
			if !c03NoDup(r.el[i]) {
				return false
			}
		}
	case rkFn:
		for i := range r.ks {
			for j := 0; j < i; j++ {
				if refEq(r.ks[i], r.ks[j]) {
					return false
				}
			}
			if !c03NoDup(r.vs[i]) {
				return false
			}
		}
	}
	return true
}

// ---------------------------------------------------------------- operand shapes

const (
	shBool = iota
	shInt
	shStr
	shSet0
	shSetI1
	shSetI2
	shSetI3
	shSetS2
	shSetSet
	shTup0
	shTupI1
	shTupI2
	shTupI3
	shFn0
	shFnII1
	shFnII2
	shRecA
	shRecAB
	shSetB2
	shTupS2
	shCount
)

var c03Strs = []string{"a", "b"}

func c03Int(tag string) (Value, rv) {
	n := verifNondetInt32(tag)
	return MakeNumber(n), rN(int64(n))
}

func c03Str(tag string) (Value, rv) {
	s := c03Strs[verifChoose(tag, 2)]
	return MakeString(s), rS(s)
}

func c03Mk(tag string, shape int) (Value, rv) {
	switch shape {
	case shBool:
		b := verifNondetBool(tag)
		return MakeBool(b), rB(b)
	case shInt:
		return c03Int(tag)
	case shStr:
		return c03Str(tag)
	case shSet0:
		return MakeSet(), rSet()
	case shSetI1, shSetI2, shSetI3:
		n := shape - shSetI1 + 1
		var vs []Value
		var rs []rv
		for i := 0; i < n; i++ {
			v, r := c03Int(tag)
			vs, rs = append(vs, v), append(rs, r)
		}
		return MakeSet(vs...), rSet(rs...)
	case shSetS2:
		v1, r1 := c03Str(tag)
		v2, r2 := c03Str(tag)
		return MakeSet(v1, v2), rSet(r1, r2)
	case shSetB2:
		v1, r1 := c03Mk(tag, shBool)
		v2, r2 := c03Mk(tag, shBool)
		return MakeSet(v1, v2), rSet(r1, r2)
	case shSetSet:
		v1, r1 := c03Mk(tag, shSetI1)
		v2, r2 := c03Mk(tag, shSetI2)
		return MakeSet(v1, v2), rSet(r1, r2)
	case shTup0:
		return MakeTuple(), rTup()
	case shTupI1, shTupI2, shTupI3:
		n := shape - shTupI1 + 1
		var vs []Value
		var rs []rv
		for i := 0; i < n; i++ {
			v, r := c03Int(tag)
			vs, rs = append(vs, v), append(rs, r)
		}
		return MakeTuple(vs...), rTup(rs...)
	case shTupS2:
		v1, r1 := c03Str(tag)
		v2, r2 := c03Str(tag)
		return MakeTuple(v1, v2), rTup(r1, r2)
	case shFn0:
		return MakeRecord(nil), rv{k: rkFn}
	case shFnII1, shFnII2:
		n := shape - shFnII1 + 1
		var fields []RecordField
		r := rv{k: rkFn}
		for i := 0; i < n; i++ {
			k, rk := c03Int(tag + ".k")
			v, rvv := c03Int(tag + ".v")
			for _, prev := range r.ks {
				verifAssume(prev.n != rk.n) // a function's domain is a set: generated keys are distinct
			}
			fields = append(fields, RecordField{k, v})
			r.ks, r.vs = append(r.ks, rk), append(r.vs, rvv)
		}
		return MakeRecord(fields), r
	case shRecA:
		v, r := c03Int(tag)
		return MakeRecord([]RecordField{{MakeString("a"), v}}), rv{k: rkFn, ks: []rv{rS("a")}, vs: []rv{r}}
	case shRecAB:
		v1, r1 := c03Int(tag)
		v2, r2 := c03Int(tag)
		return MakeRecord([]RecordField{{MakeString("a"), v1}, {MakeString("b"), v2}}), rv{k: rkFn, ks: []rv{rS("a"), rS("b")}, vs: []rv{r1, r2}}
	}
	panic("bad shape")
}

var c03KindShapes = []int{shBool, shInt, shStr, shSetI1, shTupI1, shFnII1}

// ---------------------------------------------------------------- outcome checking

type c03Status int

const (
	stOK      c03Status = iota // must return exactly the reference value
	stMustErr                  // TLC reports an error: must panic with ErrTLAType
	stEither                   // documented restriction: reference value or loud ErrTLAType
	stSkip                     // not asserted (outside the claim): anything but a hang / non-TLA panic
)

func c03Try(f func() Value) (res Value, panicked bool, tlaErr bool) {
	defer func() {
		if r := recover(); r != nil {
			panicked = true
			if e, ok := r.(error); ok && errors.Is(e, ErrTLAType) {
				tlaErr = true
			}
		}
	}()
	res = f()
	return
}

func c03Judge(name string, res Value, panicked, tlaErr bool, want rv, st c03Status) {
	if panicked {
		verifAssert(tlaErr, name+": fails, but not loudly with a TLA+ type error")
	}
	switch st {
	case stOK:
		verifAssert(!panicked, name+": raises an error on well-typed operands where TLA+ defines a value")
		if !panicked {
			got := toRef(res)
			verifAssert(refEq(got, want), name+": result differs from TLA+ semantics")
			verifAssert(c03NoDup(got), name+": result holds duplicate members")
		}
	case stMustErr:
		verifAssert(panicked, name+": returns a value where TLC reports an error")
	case stEither:
		if !panicked {
			got := toRef(res)
			verifAssert(refEq(got, want), name+": result differs from TLA+ semantics (restricted case)")
		}
	case stSkip:
	}
}

func fitsInt32(n int64) bool { return n >= math.MinInt32 && n <= math.MaxInt32 }

// ---------------------------------------------------------------- arithmetic (Int encoding)

func refFloorDiv(a, b int64) int64 {
	q := a / b
	if a%b != 0 && ((a < 0) != (b < 0)) {
		q--
	}
	return q
}

func HarnessC03_Arith() {
	op := verifChoose("op", 10)
	a32 := verifNondetInt32("a")
	b32 := verifNondetInt32("b")
	a, b := int64(a32), int64(b32)
	va, vb := MakeNumber(a32), MakeNumber(b32)
	names := []string{"+", "-", "*", "\\div", "%", "unary-", "<", "<=", ">", ">="}
	name := "C03 " + names[op]
	var res Value
	var panicked, tlaErr bool
	var want int64
	st := stOK
	switch op {
	case 0:
		res, panicked, tlaErr = c03Try(func() Value { return ModulePlusSymbol(va, vb) })
		want = a + b
	case 1:
		res, panicked, tlaErr = c03Try(func() Value { return ModuleMinusSymbol(va, vb) })
		want = a - b
	case 2:
		res, panicked, tlaErr = c03Try(func() Value { return ModuleAsteriskSymbol(va, vb) })
		want = a * b
	case 3:
		res, panicked, tlaErr = c03Try(func() Value { return ModuleDivSymbol(va, vb) })
		if b == 0 {
			st = stMustErr
		} else {
			want = refFloorDiv(a, b)
		}
	case 4:
		res, panicked, tlaErr = c03Try(func() Value { return ModulePercentSymbol(va, vb) })
		if b <= 0 {
			st = stMustErr
		} else {
			want = a - b*refFloorDiv(a, b)
		}
	case 5:
		res, panicked, tlaErr = c03Try(func() Value { return ModuleNegationSymbol(va) })
		want = -a
	default:
		var wb bool
		switch op {
		case 6:
			res, panicked, tlaErr = c03Try(func() Value { return ModuleLessThanSymbol(va, vb) })
			wb = a < b
		case 7:
			res, panicked, tlaErr = c03Try(func() Value { return ModuleLessThanOrEqualSymbol(va, vb) })
			wb = a <= b
		case 8:
			res, panicked, tlaErr = c03Try(func() Value { return ModuleGreaterThanSymbol(va, vb) })
			wb = a > b
		case 9:
			res, panicked, tlaErr = c03Try(func() Value { return ModuleGreaterThanOrEqualSymbol(va, vb) })
			wb = a >= b
		}
		c03Judge(name, res, panicked, tlaErr, rB(wb), stOK)
		verifReach("end")
		return
	}
	if st == stOK && !fitsInt32(want) {
		st = stMustErr // TLC: "Overflow when computing ..."
		name += " (overflow)"
	}
	c03Judge(name, res, panicked, tlaErr, rN(want), st)
	verifReach("end")
}

// a..b for ranges of at most 4 members anywhere in int32 (incl. next to MaxInt32): value and termination.
func HarnessC03_DotDot() {
	a32 := verifNondetInt32("a")
	b32 := verifNondetInt32("b")
	a, b := int64(a32), int64(b32)
	verifAssume(b-a <= 3 && b-a >= -2)
	verifUnwind(12, true)
	res, panicked, tlaErr := c03Try(func() Value { return ModuleDotDotSymbol(MakeNumber(a32), MakeNumber(b32)) })
	want := rSet()
	for i := a; i <= b; i++ {
		want.el = append(want.el, rN(i))
	}
	c03Judge("C03 ..", res, panicked, tlaErr, want, stOK)
	verifReach("end")
}

// ---------------------------------------------------------------- unary operators

func HarnessC03_Unary() {
	op := verifChoose("op", 11)
	shape := verifChoose("shape", shCount)
	x, rx := c03Mk("x", shape)
	names := []string{"~", "SUBSET", "UNION", "IsFiniteSet", "Cardinality", "Len", "Head", "Tail", "DOMAIN", "unary-", "ToString"}
	name := "C03 " + names[op]
	var res Value
	var panicked, tlaErr bool
	var want rv
	st := stOK
	switch op {
	case 0:
		res, panicked, tlaErr = c03Try(func() Value { return ModuleLogicalNotSymbol(x) })
		if rx.k == rkBool {
			want = rB(!rx.b)
		} else {
			st = stMustErr
		}
	case 1:
		res, panicked, tlaErr = c03Try(func() Value { return ModulePrefixSubsetSymbol(x) })
		if rx.k == rkSet {
			want = rSet()
			n := len(rx.el)
			for m := 0; m < (1 << uint(n)); m++ {
				sub := rSet()
				for i := 0; i < n; i++ {
					if m&(1<<uint(i)) != 0 {
						sub.el = append(sub.el, rx.el[i])
					}
				}
				want.el = append(want.el, sub)
			}
		} else {
			st = stMustErr
		}
	case 2:
		res, panicked, tlaErr = c03Try(func() Value { return ModulePrefixUnionSymbol(x) })
		if rx.k == rkSet {
			want = rSet()
			for _, e := range rx.el {
				if e.k != rkSet {
					st = stMustErr
				}
				want.el = append(want.el, e.el...)
			}
		} else {
			st = stMustErr
		}
	case 3:
		res, panicked, tlaErr = c03Try(func() Value { return ModuleIsFiniteSet(x) })
		if rx.k == rkSet {
			want = rB(true)
		} else {
			st = stMustErr
		}
	case 4:
		res, panicked, tlaErr = c03Try(func() Value { return ModuleCardinality(x) })
		if rx.k == rkSet {
			want = rN(refCard(rx))
		} else {
			st = stMustErr
		}
	case 5:
		res, panicked, tlaErr = c03Try(func() Value { return ModuleLen(x) })
		switch rx.k {
		case rkTup:
			want = rN(int64(len(rx.el)))
		case rkFn:
			st = stSkip // a function with domain 1..n is a sequence in TLA+; the runtime documents that it is not accepted
		default:
			st = stMustErr
		}
	case 6:
		res, panicked, tlaErr = c03Try(func() Value { return ModuleHead(x) })
		switch {
		case rx.k == rkTup && len(rx.el) > 0:
			want = rx.el[0]
		case rx.k == rkFn:
			st = stSkip
		default:
			st = stMustErr
		}
	case 7:
		res, panicked, tlaErr = c03Try(func() Value { return ModuleTail(x) })
		switch {
		case rx.k == rkTup && len(rx.el) > 0:
			want = rTup(rx.el[1:]...)
		case rx.k == rkFn:
			st = stSkip
		default:
			st = stMustErr
		}
	case 8:
		res, panicked, tlaErr = c03Try(func() Value { return ModuleDomainSymbol(x) })
		switch rx.k {
		case rkFn:
			want = rSet(rx.ks...)
		case rkTup:
			// documented restriction (a sequence where a function is required): 1..Len or a loud error
			want = rSet()
			for i := range rx.el {
				want.el = append(want.el, rN(int64(i+1)))
			}
			st = stEither
		default:
			st = stMustErr
		}
	case 9:
		res, panicked, tlaErr = c03Try(func() Value { return ModuleNegationSymbol(x) })
		if rx.k == rkInt {
			st = stSkip // value checked by HarnessC03_Arith
		} else {
			st = stMustErr
		}
	case 10:
		res, panicked, tlaErr = c03Try(func() Value { return ModuleIsFiniteSet(MakeSet(x)) })
		want = rB(true)
	}
	c03Judge(name, res, panicked, tlaErr, want, st)
	verifReach("end")
}

// ---------------------------------------------------------------- binary operators

func sameElemKind(a, b rv) bool {
	// sets whose members are of one kind each, and the same kind (or one of them empty)
	if len(a.el) == 0 || len(b.el) == 0 {
		return true
	}
	return a.el[0].k == b.el[0].k
}

var c03BinNames = []string{"=", "#", "\\in", "\\notin", "\\intersect", "\\union", "\\subseteq", "\\", "\\o", "Append", ":>", "@@", "apply", "<=>", "<"}

func c03Binary(op int, x, y Value, rx, ry rv) {
	name := "C03 " + c03BinNames[op]
	var res Value
	var panicked, tlaErr bool
	var want rv
	st := stOK
	switch op {
	case 0, 1:
		if op == 0 {
			res, panicked, tlaErr = c03Try(func() Value { return ModuleEqualsSymbol(x, y) })
		} else {
			res, panicked, tlaErr = c03Try(func() Value { return ModuleNotEqualsSymbol(x, y) })
		}
		if rx.k == ry.k && (rx.k != rkSet || sameElemKind(rx, ry)) {
			want = rB(refEq(rx, ry) == (op == 0))
		} else {
			st = stSkip // comparing values of different kinds: TLC errors or identifies (seq vs function); outside the claim
			if !panicked {
				verifAssert(res.IsBool(), name+": comparison does not yield a boolean")
			}
		}
	case 2, 3:
		if op == 2 {
			res, panicked, tlaErr = c03Try(func() Value { return ModuleInSymbol(x, y) })
		} else {
			res, panicked, tlaErr = c03Try(func() Value { return ModuleNotInSymbol(x, y) })
		}
		switch {
		case ry.k != rkSet:
			st = stMustErr
		case len(ry.el) > 0 && ry.el[0].k != rx.k:
			st = stSkip
		default:
			want = rB(refIn(rx, ry) == (op == 2))
		}
	case 4, 5, 6, 7:
		switch op {
		case 4:
			res, panicked, tlaErr = c03Try(func() Value { return ModuleIntersectSymbol(x, y) })
		case 5:
			res, panicked, tlaErr = c03Try(func() Value { return ModuleUnionSymbol(x, y) })
		case 6:
			res, panicked, tlaErr = c03Try(func() Value { return ModuleSubsetOrEqualSymbol(x, y) })
		case 7:
			res, panicked, tlaErr = c03Try(func() Value { return ModuleBackslashSymbol(x, y) })
		}
		switch {
		case rx.k != rkSet || ry.k != rkSet:
			st = stMustErr
		case !sameElemKind(rx, ry):
			st = stSkip
		default:
			want = rSet()
			switch op {
			case 4:
				for _, e := range rx.el {
					if refIn(e, ry) {
						want.el = append(want.el, e)
					}
				}
			case 5:
				want.el = append(append(want.el, rx.el...), ry.el...)
			case 6:
				want = rB(refSubset(rx, ry))
			case 7:
				for _, e := range rx.el {
					if !refIn(e, ry) {
						want.el = append(want.el, e)
					}
				}
			}
		}
	case 8:
		res, panicked, tlaErr = c03Try(func() Value { return ModuleOSymbol(x, y) })
		switch {
		case rx.k == rkTup && ry.k == rkTup:
			want = rTup(append(append([]rv{}, rx.el...), ry.el...)...)
		case (rx.k == rkTup || rx.k == rkFn) && (ry.k == rkTup || ry.k == rkFn):
			st = stSkip
		default:
			st = stMustErr
		}
	case 9:
		res, panicked, tlaErr = c03Try(func() Value { return ModuleAppend(x, y) })
		switch rx.k {
		case rkTup:
			want = rTup(append(append([]rv{}, rx.el...), ry)...)
		case rkFn:
			st = stSkip
		default:
			st = stMustErr
		}
	case 10:
		res, panicked, tlaErr = c03Try(func() Value { return ModuleColonGreaterThanSymbol(x, y) })
		want = rv{k: rkFn, ks: []rv{rx}, vs: []rv{ry}}
	case 11:
		res, panicked, tlaErr = c03Try(func() Value { return ModuleDoubleAtSignSymbol(x, y) })
		switch {
		case rx.k == rkFn && ry.k == rkFn:
			want = rv{k: rkFn, ks: append(append([]rv{}, rx.ks...), ry.ks...), vs: append(append([]rv{}, rx.vs...), ry.vs...)}
			if len(rx.ks) > 0 && len(ry.ks) > 0 && rx.ks[0].k != ry.ks[0].k {
				st = stSkip
			}
		case (rx.k == rkTup || rx.k == rkFn) && (ry.k == rkTup || ry.k == rkFn):
			st = stSkip
		default:
			st = stMustErr
		}
	case 12:
		res, panicked, tlaErr = c03Try(func() Value { return x.ApplyFunction(y) })
		switch rx.k {
		case rkFn:
			if len(rx.ks) > 0 && rx.ks[0].k != ry.k {
				st = stSkip
			} else if v, ok := refLookup(rx, ry); ok {
				want = v
			} else {
				st = stMustErr
			}
		case rkTup:
			if ry.k != rkInt {
				st = stMustErr
			} else if ry.n >= 1 && ry.n <= int64(len(rx.el)) {
				want = rx.el[ry.n-1]
			} else {
				st = stMustErr
			}
		default:
			st = stMustErr
		}
	case 13:
		res, panicked, tlaErr = c03Try(func() Value { return ModuleEquivSymbol(x, y) })
		if rx.k == rkBool && ry.k == rkBool {
			want = rB(rx.b == ry.b)
		} else {
			st = stMustErr
		}
	case 14:
		res, panicked, tlaErr = c03Try(func() Value { return ModuleLessThanSymbol(x, y) })
		if rx.k == rkInt && ry.k == rkInt {
			want = rB(rx.n < ry.n)
		} else {
			st = stMustErr
		}
	}
	c03Judge(name, res, panicked, tlaErr, want, st)
}

// well-typed shape pairs per operator (index into c03BinNames)
var c03BinShapes = [][2][]int{
	0:  {{shBool, shInt, shStr, shSet0, shSetI2, shSetI3, shSetS2, shTupI2, shTup0, shFnII2, shRecAB, shSetSet}, nil}, // = : rhs same list
	1:  {{shInt, shSetI2, shTupI2, shFnII1}, nil},
	2:  {{shInt}, {shSet0, shSetI1, shSetI2, shSetI3}},
	3:  {{shInt}, {shSet0, shSetI2}},
	4:  {{shSet0, shSetI1, shSetI2, shSetI3}, {shSet0, shSetI1, shSetI2, shSetI3}},
	5:  {{shSet0, shSetI1, shSetI2, shSetI3}, {shSet0, shSetI1, shSetI2, shSetI3}},
	6:  {{shSet0, shSetI1, shSetI2, shSetI3}, {shSet0, shSetI1, shSetI2}},
	7:  {{shSet0, shSetI1, shSetI2, shSetI3}, {shSet0, shSetI1, shSetI2}},
	8:  {{shTup0, shTupI1, shTupI2}, {shTup0, shTupI1, shTupI2}},
	9:  {{shTup0, shTupI1, shTupI2}, {shInt, shStr, shSetI1}},
	10: {{shInt, shStr}, {shInt, shSetI1}},
	11: {{shFn0, shFnII1, shFnII2}, {shFn0, shFnII1, shFnII2}},
	12: {{shFnII1, shFnII2, shTupI1, shTupI2, shTupI3}, {shInt}},
	13: {{shBool}, {shBool}},
	14: {{shInt}, {shInt}},
}

func HarnessC03_Binary() {
	op := verifChoose("op", len(c03BinNames))
	illTyped := verifChoose("ill", 2)
	var sx, sy int
	if illTyped == 1 {
		sx = c03KindShapes[verifChoose("kx", len(c03KindShapes))]
		sy = c03KindShapes[verifChoose("ky", len(c03KindShapes))]
	} else {
		l := c03BinShapes[op][0]
		r := c03BinShapes[op][1]
		if r == nil {
			r = l
		}
		sx = l[verifChoose("sx", len(l))]
		if op <= 1 {
			sy = sx
			if verifChoose("samekind", 2) == 1 {
				sy = r[verifChoose("sy", len(r))]
			}
		} else {
			sy = r[verifChoose("sy", len(r))]
		}
	}
	x, rx := c03Mk("x", sx)
	y, ry := c03Mk("y", sy)
	c03Binary(op, x, y, rx, ry)
	verifReach("end")
}

// ---------------------------------------------------------------- SubSeq

func HarnessC03_SubSeq() {
	shapes := []int{shTup0, shTupI1, shTupI2, shTupI3, shInt, shSetI1, shFnII1}
	sx := shapes[verifChoose("shape", len(shapes))]
	x, rx := c03Mk("x", sx)
	m32 := verifNondetInt32("m")
	n32 := verifNondetInt32("n")
	m, n := int64(m32), int64(n32)
	res, panicked, tlaErr := c03Try(func() Value { return ModuleSubSeq(x, MakeNumber(m32), MakeNumber(n32)) })
	var want rv
	st := stOK
	switch {
	case rx.k == rkFn:
		st = stSkip
	case rx.k != rkTup:
		st = stMustErr
	case m > n:
		want = rTup()
	case m >= 1 && n <= int64(len(rx.el)):
		want = rTup(rx.el[m-1 : n]...)
	default:
		st = stMustErr
	}
	c03Judge("C03 SubSeq", res, panicked, tlaErr, want, st)
	verifReach("end")
}

// ---------------------------------------------------------------- built-in syntax helpers

func HarnessC03_Builtins() {
	op := verifChoose("op", 13)
	names := []string{"\\A", "\\E", "{x \\in S : P}", "{e : x \\in S}", "\\X", "EXCEPT", "CHOOSE", "[x \\in S |-> e]", "[S -> T]", "record set", "SelectElement", "MakeSet", "EXCEPT-tuple"}
	name := "C03 " + names[op]
	t32 := verifNondetInt32("t")
	t := int64(t32)
	var res Value
	var panicked, tlaErr bool
	var want rv
	st := stOK
	setShapes := []int{shSet0, shSetI1, shSetI2, shSetI3}
	switch op {
	case 0, 1, 2, 3, 6, 7:
		sShape := setShapes[verifChoose("s", len(setShapes))]
		if verifChoose("illtyped", 2) == 1 {
			sShape = []int{shInt, shTupI1, shFnII1, shBool, shStr}[verifChoose("k", 5)]
		}
		s, rs := c03Mk("S", sShape)
		pred := func(v Value) bool { return int64(v.AsNumber()) > t }
		switch op {
		case 0:
			res, panicked, tlaErr = c03Try(func() Value {
				return QuantifiedUniversal([]Value{s}, func(a []Value) bool { return pred(a[0]) })
			})
			w := true
			for _, e := range rs.el {
				w = w && e.n > t
			}
			want = rB(w)
		case 1:
			res, panicked, tlaErr = c03Try(func() Value {
				return QuantifiedExistential([]Value{s}, func(a []Value) bool { return pred(a[0]) })
			})
			w := false
			for _, e := range rs.el {
				w = w || e.n > t
			}
			want = rB(w)
		case 2:
			res, panicked, tlaErr = c03Try(func() Value { return SetRefinement(s, pred) })
			want = rSet()
			for _, e := range rs.el {
				if e.n > t {
					want.el = append(want.el, e)
				}
			}
		case 3:
			res, panicked, tlaErr = c03Try(func() Value {
				return SetComprehension([]Value{s}, func(a []Value) Value { return MakeBool(pred(a[0])) })
			})
			want = rSet()
			for _, e := range rs.el {
				want.el = append(want.el, rB(e.n > t))
			}
		case 6:
			res, panicked, tlaErr = c03Try(func() Value { return Choose(s, pred) })
			any := false
			for _, e := range rs.el {
				any = any || e.n > t
			}
			if rs.k == rkSet && !any {
				st = stMustErr
			} else if rs.k == rkSet {
				st = stSkip // CHOOSE: any member satisfying the predicate
				verifAssert(!panicked, name+": raises an error although a witness exists")
				if !panicked {
					got := toRef(res)
					verifAssert(got.k == rkInt && refIn(got, rs) && got.n > t, name+": chosen value is not a member satisfying the predicate")
				}
			}
		case 7:
			res, panicked, tlaErr = c03Try(func() Value {
				return MakeFunction([]Value{s}, func(a []Value) Value { return MakeBool(pred(a[0])) })
			})
			want = rv{k: rkFn}
			for _, e := range rs.el {
				want.ks, want.vs = append(want.ks, e), append(want.vs, rB(e.n > t))
			}
		}
		if rs.k != rkSet {
			st = stMustErr
		}
	case 4:
		a, ra := c03Mk("A", setShapes[verifChoose("a", 3)])
		b, rb := c03Mk("B", []int{shSet0, shSetB2, shSetI1, shInt}[verifChoose("b", 4)])
		res, panicked, tlaErr = c03Try(func() Value { return CrossProduct(a, b) })
		if rb.k != rkSet {
			st = stMustErr
		} else {
			want = rSet()
			for _, x := range ra.el {
				for _, y := range rb.el {
					want.el = append(want.el, rTup(x, y))
				}
			}
		}
	case 5:
		f, rf := c03Mk("f", []int{shFnII1, shFnII2, shRecAB, shInt, shSetI1}[verifChoose("f", 5)])
		k, rk := c03Mk("k", []int{shInt, shStr}[verifChoose("k", 2)])
		nv, rnv := c03Int("nv")
		res, panicked, tlaErr = c03Try(func() Value {
			return FunctionSubstitution(f, []FunctionSubstitutionRecord{{[]Value{k}, func(anchor Value) Value { return nv }}})
		})
		switch {
		case rf.k != rkFn:
			st = stMustErr
		case len(rf.ks) > 0 && rf.ks[0].k != rk.k:
			st = stSkip
		default:
			if _, ok := refLookup(rf, rk); ok {
				want = rv{k: rkFn, ks: append([]rv{rk}, rf.ks...), vs: append([]rv{rnv}, rf.vs...)}
			} else {
				want = rf
				st = stEither // EXCEPT on a key outside the domain: unchanged (TLC) or loud
			}
		}
	case 12:
		f, rf := c03Mk("f", []int{shTupI1, shTupI2, shTupI3, shTup0}[verifChoose("f", 4)])
		i32 := verifNondetInt32("i")
		nv, rnv := c03Int("nv")
		res, panicked, tlaErr = c03Try(func() Value {
			return FunctionSubstitution(f, []FunctionSubstitutionRecord{{[]Value{MakeNumber(i32)}, func(anchor Value) Value { return nv }}})
		})
		i := int64(i32)
		if i >= 1 && i <= int64(len(rf.el)) {
			want = rTup(append([]rv{}, rf.el...)...)
			want.el[i-1] = rnv
		} else {
			want = rf
			st = stEither
		}
	case 8:
		a, ra := c03Mk("A", []int{shSet0, shSetI1, shSetI2}[verifChoose("a", 3)])
		b, rb := c03Mk("B", []int{shSet0, shSetB2, shSetI1, shInt}[verifChoose("b", 4)])
		res, panicked, tlaErr = c03Try(func() Value { return MakeFunctionSet(a, b) })
		if rb.k != rkSet {
			st = stMustErr
		} else {
			// all functions from (distinct members of) A to B
			var dom []rv
			for i, e := range ra.el {
				dup := false
				for j := 0; j < i; j++ {
					dup = dup || refEq(ra.el[j], e)
				}
				if !dup {
					dom = append(dom, e)
				}
			}
			fns := []rv{{k: rkFn}}
			for _, d := range dom {
				var next []rv
				for _, f := range fns {
					for _, y := range rb.el {
						nf := rv{k: rkFn, ks: append(append([]rv{}, f.ks...), d), vs: append(append([]rv{}, f.vs...), y)}
						next = append(next, nf)
					}
				}
				fns = next
			}
			want = rSet(fns...)
		}
	case 9:
		a, ra := c03Mk("A", []int{shSet0, shSetI1, shSetI2}[verifChoose("a", 3)])
		b, rb := c03Mk("B", []int{shSetB2, shSetI1, shBool}[verifChoose("b", 3)])
		res, panicked, tlaErr = c03Try(func() Value {
			return MakeRecordSet([]RecordField{{MakeString("a"), a}, {MakeString("b"), b}})
		})
		if rb.k != rkSet {
			st = stMustErr
		} else {
			want = rSet()
			for _, x := range ra.el {
				for _, y := range rb.el {
					want.el = append(want.el, rv{k: rkFn, ks: []rv{rS("a"), rS("b")}, vs: []rv{x, y}})
				}
			}
		}
	case 10:
		s, rs := c03Mk("S", setShapes[verifChoose("s", len(setShapes))])
		idx := verifChoose("idx", 4)
		res, panicked, tlaErr = c03Try(func() Value { return s.SelectElement(uint(idx)) })
		if int64(idx) < refCard(rs) {
			st = stSkip
			verifAssert(!panicked, name+": fails for an index below the cardinality")
			if !panicked {
				verifAssert(refIn(toRef(res), rs), name+": selected value is not a member")
			}
		} else {
			st = stMustErr
		}
	case 11:
		// MakeSet / MakeTuple with duplicate-prone members, nested one level
		a, ra := c03Mk("A", shSetI2)
		b, rb := c03Mk("B", shSetI2)
		res, panicked, tlaErr = c03Try(func() Value { return MakeSet(a, b, MakeSet()) })
		want = rSet(ra, rb, rSet())
	}
	c03Judge(name, res, panicked, tlaErr, want, st)
	verifReach("end")
}

// ---------------------------------------------------------------- nesting depth 2 (sets of sets, sequences of records, functions to sets)

func HarnessC03_Nested() {
	op := verifChoose("op", 6)
	a, ra := c03Mk("A", shSetSet)
	b, rb := c03Mk("B", shSetSet)
	names := []string{"=", "\\union", "\\in", "UNION", "Cardinality", "apply"}
	name := "C03 nested " + names[op]
	var res Value
	var panicked, tlaErr bool
	var want rv
	switch op {
	case 0:
		res, panicked, tlaErr = c03Try(func() Value { return ModuleEqualsSymbol(a, b) })
		want = rB(refEq(ra, rb))
	case 1:
		res, panicked, tlaErr = c03Try(func() Value { return ModuleUnionSymbol(a, b) })
		want = rSet(append(append([]rv{}, ra.el...), rb.el...)...)
	case 2:
		x, rx := c03Mk("x", shSetI2)
		res, panicked, tlaErr = c03Try(func() Value { return ModuleInSymbol(x, a) })
		want = rB(refIn(rx, ra))
	case 3:
		res, panicked, tlaErr = c03Try(func() Value { return ModulePrefixUnionSymbol(a) })
		want = rSet()
		for _, e := range ra.el {
			want.el = append(want.el, e.el...)
		}
	case 4:
		res, panicked, tlaErr = c03Try(func() Value { return ModuleCardinality(a) })
		want = rN(refCard(ra))
	case 5:
		// function from sets to records, applied to a set built in a different order
		k1, rk1 := c03Mk("k", shSetI2)
		v1, rv1 := c03Mk("v", shRecAB)
		f := ModuleColonGreaterThanSymbol(k1, v1)
		x, rx := c03Mk("x", shSetI2)
		res, panicked, tlaErr = c03Try(func() Value { return f.ApplyFunction(x) })
		if refEq(rk1, rx) {
			want = rv1
		} else {
			c03Judge(name, res, panicked, tlaErr, want, stMustErr)
			verifReach("end")
			return
		}
	}
	c03Judge(name, res, panicked, tlaErr, want, stOK)
	verifReach("end")
}
