//go:build verif

package resources

// C13: the CRDT resource delivers every committed update and loses none.
// Two REAL crdt resources (NewCRDT with GCounter: listener, rpc server, runBroadcasts, merger) over the engine's
// net/rpc model. The environment is a symbolic event sequence: local write / commit / abort at A, broadcast tick at
// A or B, or a tick at A that overlaps A's commit; the system settles (merger, RPC handlers) after every event.

import (
	"github.com/DistCompiler/pgo/distsys"
	"github.com/DistCompiler/pgo/distsys/tla"
)

func init() {
	verifRegister("HarnessC13_Events", HarnessC13_Events)
}

func c13Count(c *crdt, id tla.Value) int32 {
	c.stateLock.RLock()
	defer c.stateLock.RUnlock()
	v, ok := c.value.(GCounter).Get(id)
	if !ok {
		return 0
	}
	return v
}

func HarnessC13_Events() {
	idA, idB := tla.MakeString("A"), tla.MakeString("B")
	addr := func(id tla.Value) string { return "crdt:" + id.AsString() }
	a := NewCRDT(idA, []tla.Value{idB}, addr, GCounter{}).(*crdt)
	b := NewCRDT(idB, []tla.Value{idA}, addr, GCounter{}).(*crdt)
	iface := distsys.ArchetypeInterface{}
	// B has a committed increment of its own that A has to learn (and must never lose)
	b0 := verifNondetInt32("b0")
	verifAssume(b0 >= 1 && b0 <= 1000)
	_ = b.WriteValue(iface, tla.MakeNumber(b0))
	b.Commit(iface)

	committedA := int32(0) // sum of A's committed increments
	pendingA := int32(0)   // increments of A's open section
	inSection := false
	seenBatA := int32(0) // the largest count for B that A has ever held
	const steps = 6
	for step := 0; step < steps; step++ {
		ev := verifNondetInt("event")
		verifAssume(ev >= 0 && ev < 6)
		switch ev {
		case 0: // A writes inside a section
			inc := verifNondetInt32("inc")
			verifAssume(inc >= 1 && inc <= 1000)
			_ = a.WriteValue(iface, tla.MakeNumber(inc))
			pendingA += inc
			inSection = true
		case 1: // A's section commits
			if inSection {
				a.Commit(iface)
				committedA += pendingA
				pendingA, inSection = 0, false
			}
		case 2: // A's section aborts
			if inSection {
				a.Abort(iface)
				pendingA, inSection = 0, false
			}
		case 3: // broadcast tick at A
			verifFireTimerN("Ticker", 0)
		case 4: // broadcast tick at B
			verifFireTimerN("Ticker", 1)
		case 5: // broadcast tick at A whose round trip is still in flight when A's open section commits
			verifAssume(inSection)
			verifFireTimerN("Ticker", 0)
			for y, n := 0, 1+verifChoose("inflight", 4); y < n; y++ {
				verifYield()
			}
			a.Commit(iface)
			committedA += pendingA
			pendingA, inSection = 0, false
		}
		verifQuiesce()
		// safety, after every event
		verifAssert(c13Count(b, idA) <= committedA, "updates of a section in flight (or aborted) are never visible at a peer")
		verifAssert(c13Count(a, idA) == committedA+pendingA, "the replica's own entry is its committed plus in-flight increments; aborted increments disappear")
		nowB := c13Count(a, idB)
		verifAssert(nowB >= seenBatA, "state received from peers is never lost")
		if nowB > seenBatA {
			seenBatA = nowB
		}
		verifAssert(nowB <= b0, "no state is invented")
	}
	// updates stop: finish the open section, then let both sides broadcast twice
	if inSection {
		a.Commit(iface)
		committedA += pendingA
		pendingA = 0
	}
	for i := 0; i < 2; i++ {
		verifFireTimerN("Ticker", 0)
		verifQuiesce()
		verifFireTimerN("Ticker", 1)
		verifQuiesce()
	}
	verifAssert(c13Count(b, idA) == committedA, "every committed update eventually reaches the connected peer")
	verifAssert(c13Count(a, idB) == b0, "the peer's committed update reaches this replica")
	ra, _ := a.ReadValue(iface)
	rb, _ := b.ReadValue(iface)
	verifAssert(ra.Equal(rb), "all replicas read equal values once updates stop")
	verifReach("end")
}
