//go:build verif

package resources

// C19: the failure detector is complete and settles to accurate answers.
// REAL Monitor (RunArchetype, ListenAndServe, IsAlive) and REAL SingleFailureDetector (mainLoop, ensureClient,
// ReadValue, Close) over the engine's net/rpc model; the environment (archetype start/end, monitor start, process
// death, polling ticks) is a symbolic event sequence.

import (
	"errors"
	"time"

	"github.com/DistCompiler/pgo/distsys"
	"github.com/DistCompiler/pgo/distsys/tla"
)

func init() {
	verifRegister("HarnessC19_Detector", HarnessC19_Detector)
	verifRegister("HarnessC19_ReadValue", HarnessC19_ReadValue)
}

const (
	c19EndDone = iota
	c19EndError
	c19EndPanic
)

func c19Archetype(end chan int) distsys.MPCalArchetype {
	sections := []distsys.MPCalCriticalSection{
		{Name: "A.l1", Body: func(iface distsys.ArchetypeInterface) error {
			switch <-end {
			case c19EndError:
				return errors.New("archetype crashed")
			case c19EndPanic:
				panic("archetype panicked")
			}
			return distsys.ErrDone
		}},
	}
	return distsys.MPCalArchetype{Name: "A", Label: "A.l1", JumpTable: distsys.MakeMPCalJumpTable(sections...),
		ProcTable: distsys.MakeMPCalProcTable(), PreAmble: func(distsys.ArchetypeInterface) {}}
}

// one polling interval passes and the system settles
func c19Tick() {
	verifQuiesce()
	verifFireTimers("Ticker")
	verifQuiesce()
}

func HarnessC19_Detector() {
	const addr = "monitor:1"
	id := tla.MakeNumber(verifNondetInt32("id"))
	other := tla.MakeNumber(verifNondetInt32("other")) // another archetype of the same monitor, always alive
	verifAssume(!id.Equal(other))
	mon := NewMonitor(addr)
	mon.setState(other, alive)
	end := make(chan int, 1)
	ctx := distsys.NewMPCalContext(id, c19Archetype(end))
	fd := NewSingleFailureDetector(id, addr)
	monitorUp, processDead := false, false
	archStarted, archEnded := false, false
	everFailedTruth := false // the archetype has ended or its monitor has died: permanently failed
	sawAliveAnswer := false
	grace := 0
	for step := 0; step < 5; step++ {
		// environment event
		ev := verifNondetInt("event") // the environment's move is a symbolic variable
		verifAssume(ev >= 0 && ev < 6)
		switch ev {
		case 0:
			if !monitorUp && !processDead {
				go func() { _ = mon.ListenAndServe() }()
				monitorUp = true
			}
		case 1:
			if !archStarted && !processDead {
				go func() { _ = mon.RunArchetype(ctx) }()
				archStarted = true
			}
		case 2:
			if archStarted && !archEnded {
				cause := verifNondetInt("cause")
				verifAssume(cause >= 0 && cause < 3)
				end <- cause
				archEnded = true
				everFailedTruth = true
			}
		case 3:
			if monitorUp && !processDead {
				verifNetKill(addr) // the monitor's process dies: unreachable from now on
				processDead = true
				everFailedTruth = true
			}
		case 4:
			// nothing happens during this interval
		case 5:
			if processDead {
				// the process is restarted at the same address and runs the archetype again
				mon = NewMonitor(addr)
				end = make(chan int, 1)
				ctx = distsys.NewMPCalContext(id, c19Archetype(end))
				m2, c2 := mon, ctx
				go func() { _ = m2.ListenAndServe() }()
				go func() { _ = m2.RunArchetype(c2) }()
				monitorUp, processDead, archStarted, archEnded, everFailedTruth = true, false, true, false, false
				grace = 1 // the first poll after the restart still meets the dead connection and schedules a re-dial
			}
		}
		c19Tick()
		before := fd.getState()
		sleeps := verifSleepCount()
		v, err := fd.ReadValue(distsys.ArchetypeInterface{})
		verifAssert(fd.getState() == before, "reading the detector never changes what it reports")
		if before == uninitialized {
			verifAssert(err == distsys.ErrCriticalSectionAborted && verifSleepCount() == sleeps+1, "an uninitialised detector delays the reader by exactly one polling interval and aborts")
		} else {
			verifAssert(err == nil && verifSleepCount() == sleeps, "an initialised detector answers without delay")
			failedAnswer := v.AsBool()
			if everFailedTruth {
				verifAssert(failedAnswer, "after a crash / normal end / monitor death the detector reports failure within one polling interval and keeps doing so")
			}
			if monitorUp && !processDead && archStarted && !archEnded {
				if grace > 0 {
					grace--
				} else {
					verifAssert(!failedAnswer, "a running archetype with a reachable monitor is reported alive after a successful poll")
					sawAliveAnswer = true
				}
			}
		}
	}
	_ = sawAliveAnswer
	if !archEnded && archStarted {
		end <- c19EndDone
	}
	closed := make(chan error, 1)
	go func() { closed <- fd.Close() }()
	c19Tick() // Close hands over to the polling loop at its next tick
	verifAssert(len(closed) == 1, "Close returns within one polling interval")
	verifReach("end")
}

// ReadValue in isolation: arbitrary stored state
func HarnessC19_ReadValue() {
	// every polling-interval / time-out setting: both symbolic
	pull, timeout := verifNondetInt64("pullInterval"), verifNondetInt64("timeout")
	verifAssume(pull > 0 && pull <= 1<<40 && timeout > 0 && timeout <= 1<<40)
	fd := &SingleFailureDetector{pullInterval: time.Duration(pull), timeout: time.Duration(timeout)}
	st := ArchetypeState(verifChoose("state", 5))
	fd.state = st
	sleeps := verifSleepCount()
	slept := verifSleepTotal()
	v, err := fd.ReadValue(distsys.ArchetypeInterface{})
	verifAssert(fd.state == st, "ReadValue leaves the state alone")
	switch st {
	case uninitialized:
		verifAssert(err == distsys.ErrCriticalSectionAborted && verifSleepCount() == sleeps+1, "uninitialised: one interval, abort")
		verifAssert(verifSleepTotal()-slept <= pull, "reading the detector never delays a critical section by more than one polling interval")
	case alive:
		verifAssert(err == nil && !v.AsBool() && verifSleepCount() == sleeps, "alive maps to FALSE")
	default:
		verifAssert(err == nil && v.AsBool() && verifSleepCount() == sleeps, "failed/finished/unknown map to TRUE")
	}
	verifReach("end")
}
