//go:build verif

package resources

// C06: mailboxes and channels are reliable FIFO exactly-once transactional links.
// Senders and one receiver drive the REAL tcpMailboxesRemote / tcpMailboxesLocal (handleConn, listen, ReadValue, Abort,
// Commit, length, WriteValue, PreCommit) through the ArchetypeResource protocol the run loop uses, over the engine's
// connection + gob model. Payloads, the number of sends per section, commit/abort decisions (also an abort after a
// successful pre-commit) and the schedule are symbolic.

import (
	"github.com/DistCompiler/pgo/distsys"
	"github.com/DistCompiler/pgo/distsys/tla"
)

func init() {
	verifRegister("HarnessC06_TCP", HarnessC06_TCP)
	verifRegister("HarnessC06_TCPLate", HarnessC06_TCPLate)
	verifRegister("HarnessC06_TCPTwo", HarnessC06_TCPTwo)
	verifRegister("HarnessC06_TCPLate1", HarnessC06_TCPLate1)
	verifRegister("HarnessC06_Chan", HarnessC06_Chan)
	verifRegister("HarnessC06_TCPBack", HarnessC06_TCPBack)
	verifRegister("HarnessC06_Relaxed", HarnessC06_Relaxed)
	verifRegister("HarnessC06_RelaxedLate", HarnessC06_RelaxedLate)
	verifRegister("HarnessC06_RelaxedTwo", HarnessC06_RelaxedTwo)
}

func c06Iface() distsys.ArchetypeInterface {
	arch := distsys.MPCalArchetype{Name: "X", Label: "X.l", JumpTable: distsys.MakeMPCalJumpTable(), ProcTable: distsys.MakeMPCalProcTable(), PreAmble: func(distsys.ArchetypeInterface) {}}
	return distsys.NewMPCalContext(tla.MakeNumber(0), arch).IFace()
}

type c06Msg struct {
	sender  int
	section int
	payload tla.Value
}

func c06Val(sender int, payload int32) tla.Value {
	return tla.MakeTuple(tla.MakeNumber(int32(sender)), tla.MakeNumber(payload))
}

// sender s runs nsec sections; returns (through sent) the messages of its committed sections, in order
func c06Sender(s int, remote distsys.ArchetypeResource, iface distsys.ArchetypeInterface, nsec int, sent *[]c06Msg, done chan bool) {
	for sec := 0; sec < nsec; sec++ {
		n := 1 + verifChoose("nsend", 2)
		var batch []c06Msg
		failed := false
		for k := 0; k < n && !failed; k++ {
			p := verifNondetInt32("payload")
			v := c06Val(s, p)
			if err := remote.WriteValue(iface, v); err != nil {
				failed = true
			}
			batch = append(batch, c06Msg{sender: s, section: sec, payload: v})
		}
		switch {
		case failed:
			remote.Abort(iface)
		case verifChoose("decision", 3) == 0: // abort before pre-commit (false await / other resource refused)
			remote.Abort(iface)
		default:
			abortAfterPrecommit := verifChoose("lateabort", 2) == 1
			var err error
			if ch := remote.PreCommit(iface); ch != nil {
				err = <-ch
			}
			if err != nil || abortAfterPrecommit {
				remote.Abort(iface) // another resource's pre-commit was refused
			} else {
				// from here on the section is committed (Commit is unconditional): its messages count as sent
				*sent = append(*sent, batch...)
				if ch := remote.Commit(iface); ch != nil {
					<-ch
				}
			}
		}
	}
	done <- true
}

func c06Check(sent [][]c06Msg, got []tla.Value, final bool) { c06CheckK(sent, got, final, true) }

func c06CheckK(sent [][]c06Msg, got []tla.Value, final bool, batches bool) {
	next := make([]int, len(sent))
	lastSender, lastSection := -1, -1
	open := false // inside a batch that is not finished yet
	for _, v := range got {
		s := int(v.ApplyFunction(tla.MakeNumber(1)).AsNumber())
		verifAssert(s >= 0 && s < len(sent), "a received message names a real sender (nothing invented)")
		if s < 0 || s >= len(sent) {
			continue
		}
		verifAssert(next[s] < len(sent[s]), "nothing is received that was not sent by a committed section (no duplicate, no message of an aborted section)")
		if next[s] >= len(sent[s]) {
			continue
		}
		m := sent[s][next[s]]
		verifAssert(v.Equal(m.payload), "per sender, messages arrive in the order they were sent (FIFO, nothing lost or reordered)")
		if open && batches {
			verifAssert(s == lastSender && m.section == lastSection, "the messages of one section arrive together, contiguously")
		}
		lastSender, lastSection = s, m.section
		next[s]++
		open = next[s] < len(sent[s]) && sent[s][next[s]].section == m.section
	}
	if final {
		for s := range sent {
			verifAssert(next[s] == len(sent[s]), "at quiescence every message of every committed section has been received")
		}
	}
}

func c06TCP(nsenders, nsec int, late bool, rounds int, chanSize ...int) {
	var opts []MailboxesOption
	if len(chanSize) > 0 {
		opts = append(opts, WithMailboxesReceiveChanSize(chanSize[0])) // back-pressure: the receive channel holds chanSize committed batches
	}
	addrOf := func(idx tla.Value) (MailboxKind, string) { return MailboxesRemote, "mbox:1" }
	recvBoxes := NewTCPMailboxes(func(idx tla.Value) (MailboxKind, string) { return MailboxesLocal, "mbox:1" }, opts...)
	riface := c06Iface()
	localRes, _ := recvBoxes.Index(riface, tla.MakeNumber(1))
	local := localRes.(*tcpMailboxesLocal)
	sent := make([][]c06Msg, nsenders)
	done := make(chan bool, nsenders)
	for s := 0; s < nsenders; s++ {
		s := s
		boxes := NewTCPMailboxes(addrOf)
		siface := c06Iface()
		remote, _ := boxes.Index(siface, tla.MakeNumber(1))
		go c06Sender(s, remote, siface, nsec, &sent[s], done)
	}
	if late {
		for s := 0; s < nsenders; s++ {
			<-done // a slow receiver: every sender has finished before the first read
		}
		verifQuiesce()
	}
	var got []tla.Value
	// the receiver: sections of 1-2 reads, each section committed or aborted on a symbolic decision; a read that
	// times out aborts the section; the receiver stops after the first time-out that happens once all senders are done
	finished := 0
	if late {
		finished = nsenders
	}
	for round := 0; round < rounds; round++ {
		n := 1 + verifChoose("nread", 2)
		var batch []tla.Value
		timedOut := false
		for k := 0; k < n; k++ {
			v, err := local.ReadValue(riface)
			if err != nil {
				verifAssert(err == distsys.ErrCriticalSectionAborted, "a read time-out only aborts the section in flight")
				timedOut = true
				break
			}
			batch = append(batch, v)
		}
		if !timedOut && verifChoose("checklen", 2) == 1 {
			l := int(local.length().AsNumber())
			pending := 0
			for s := range sent {
				pending += len(sent[s])
			}
			pending -= len(got) + len(batch)
			verifAssert(l <= pending, "the reported buffer length never exceeds the number of messages actually pending")
		}
		if timedOut || verifChoose("rdecision", 2) == 0 {
			local.Abort(riface) // the messages read by this section must be delivered again, first
		} else {
			local.Commit(riface)
			got = append(got, batch...)
		}
		for len(done) > 0 {
			<-done
			finished++
		}
		c06Check(sent, got, false)
	}
	// updates stop: drain the mailbox with single-read committed sections until a read times out with all senders done
	for drain := 0; drain < 4*nsenders*nsec+4; drain++ {
		v, err := local.ReadValue(riface)
		for len(done) > 0 {
			<-done
			finished++
		}
		if err != nil {
			local.Abort(riface)
			if finished == nsenders {
				break
			}
			continue
		}
		local.Commit(riface)
		got = append(got, v)
	}
	verifAssert(finished == nsenders, "every sender finishes (no section blocks forever)")
	c06Check(sent, got, true)
	verifReach("end")
}

func HarnessC06_TCP()      { c06TCP(1, 2, false, 2) }
func HarnessC06_TCPLate()  { c06TCP(2, 2, true, 1) }
func HarnessC06_TCPTwo()   { c06TCP(2, 2, false, 1) }
func HarnessC06_TCPLate1() { c06TCP(1, 2, true, 2) }

// two senders, one section each, into a receive channel of capacity 1 and a receiver that starts late: the second
// committed batch waits in its connection handler until the receiver makes room (back-pressure)
func HarnessC06_TCPBack()  { c06TCP(2, 1, true, 1, 1) }

// Go-channel resources: OutputChan -> InputChan
func HarnessC06_Chan() {
	ch := make(chan tla.Value, 16)
	out, in := NewOutputChan(ch), NewInputChan(ch)
	iface := c06Iface()
	var sent []tla.Value
	for sec := 0; sec < 2; sec++ {
		n := 1 + verifChoose("nsend", 2)
		var batch []tla.Value
		for k := 0; k < n; k++ {
			v := tla.MakeNumber(verifNondetInt32("payload"))
			_ = out.WriteValue(iface, v)
			batch = append(batch, v)
		}
		if verifChoose("decision", 2) == 0 {
			out.Abort(iface)
		} else {
			<-out.Commit(iface)
			sent = append(sent, batch...)
		}
	}
	var got []tla.Value
	for round := 0; round < 6; round++ {
		n := 1 + verifChoose("nread", 2)
		var batch []tla.Value
		timedOut := false
		for k := 0; k < n; k++ {
			v, err := in.ReadValue(iface)
			if err != nil {
				timedOut = true
				break
			}
			batch = append(batch, v)
		}
		if timedOut || verifChoose("rdecision", 3) == 0 {
			in.Abort(iface)
		} else {
			in.Commit(iface)
			got = append(got, batch...)
		}
		if timedOut {
			break
		}
	}
	verifAssert(len(got) <= len(sent), "nothing is received that was not sent by a committed section")
	for i := range got {
		if i < len(sent) {
			verifAssert(got[i].Equal(sent[i]), "channel resources deliver committed sends once, in order; aborted reads are redelivered first")
		}
	}
	verifReach("end")
}

// Relaxed mailboxes, for sending sections that commit (the repository documents that a section cannot be aborted once
// a relaxed send succeeded): a sending section either gives up BEFORE its first send or sends 1-2 messages and commits.
// The receiver is as unrestricted as with the TCP mailboxes: sections of 1-2 reads that commit or abort, optional length
// read, time-outs. Asserted: per-sender FIFO, nothing lost / duplicated / invented, aborted reads redelivered first,
// reported length <= pending. (No batch contiguity: relaxed mailboxes deliver message by message.)
func c06RelaxedSender(s int, remote distsys.ArchetypeResource, iface distsys.ArchetypeInterface, nsec int, sent *[]c06Msg, done chan bool) {
	for sec := 0; sec < nsec; sec++ {
		if verifChoose("giveup", 3) == 0 {
			remote.Abort(iface) // false await before the send: nothing was sent
			continue
		}
		n := 1 + verifChoose("nsend", 2)
		for k := 0; k < n; k++ {
			p := verifNondetInt32("payload")
			v := c06Val(s, p)
			// recorded before the write: the receiver may obtain the message before WriteValue returns
			*sent = append(*sent, c06Msg{sender: s, section: sec, payload: v})
			err := remote.WriteValue(iface, v)
			verifAssert(err == nil, "without connection failure a relaxed send succeeds")
		}
		if ch := remote.PreCommit(iface); ch != nil {
			verifAssert(<-ch == nil, "relaxed remote pre-commit never refuses")
		}
		if ch := remote.Commit(iface); ch != nil {
			<-ch
		}
	}
	done <- true
}

func c06Relaxed(nsenders, nsec int, late bool, rounds int) {
	addrOf := func(idx tla.Value) (MailboxKind, string) { return MailboxesRemote, "mbox:1" }
	recvBoxes := NewRelaxedMailboxes(func(idx tla.Value) (MailboxKind, string) { return MailboxesLocal, "mbox:1" })
	riface := c06Iface()
	localRes, _ := recvBoxes.Index(riface, tla.MakeNumber(1))
	local := localRes.(*relaxedMailboxesLocal)
	sent := make([][]c06Msg, nsenders)
	done := make(chan bool, nsenders)
	for s := 0; s < nsenders; s++ {
		s := s
		boxes := NewRelaxedMailboxes(addrOf)
		siface := c06Iface()
		remote, _ := boxes.Index(siface, tla.MakeNumber(1))
		go c06RelaxedSender(s, remote, siface, nsec, &sent[s], done)
	}
	finished := 0
	if late {
		for s := 0; s < nsenders; s++ {
			<-done
		}
		finished = nsenders
		verifQuiesce()
	}
	var got []tla.Value
	for round := 0; round < rounds; round++ {
		n := 1 + verifChoose("nread", 2)
		var batch []tla.Value
		timedOut := false
		for k := 0; k < n; k++ {
			v, err := local.ReadValue(riface)
			if err != nil {
				verifAssert(err == distsys.ErrCriticalSectionAborted, "a read time-out only aborts the section in flight")
				timedOut = true
				break
			}
			batch = append(batch, v)
		}
		if !timedOut && verifChoose("checklen", 2) == 1 {
			l := int(local.length().AsNumber())
			pending := 0
			for s := range sent {
				pending += len(sent[s])
			}
			pending -= len(got) + len(batch)
			verifAssert(l <= pending, "the reported buffer length never exceeds the number of messages actually pending")
			verifAssert(l >= 0, "the reported buffer length is not negative")
		}
		if timedOut || verifChoose("rdecision", 2) == 0 {
			local.Abort(riface)
		} else {
			local.Commit(riface)
			got = append(got, batch...)
		}
		for len(done) > 0 {
			<-done
			finished++
		}
		c06CheckK(sent, got, false, false)
	}
	for drain := 0; drain < 4*nsenders*nsec+4; drain++ {
		v, err := local.ReadValue(riface)
		for len(done) > 0 {
			<-done
			finished++
		}
		if err != nil {
			local.Abort(riface)
			if finished == nsenders {
				break
			}
			continue
		}
		local.Commit(riface)
		got = append(got, v)
	}
	verifAssert(finished == nsenders, "every sender finishes (no section blocks forever)")
	c06CheckK(sent, got, true, false)
	verifReach("end")
}

func HarnessC06_Relaxed()     { c06Relaxed(1, 2, false, 2) }
func HarnessC06_RelaxedLate() { c06Relaxed(1, 2, true, 2) }
func HarnessC06_RelaxedTwo()  { c06Relaxed(2, 2, false, 1) }
