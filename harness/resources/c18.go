//go:build verif

package resources

// C18: execution traces are faithful and causally consistent. Tracing is switched on the way users do it
// (PGO_TRACE_DIR set at start-up) and a collecting trace.Recorder replaces the file recorder.

import (
	"github.com/DistCompiler/pgo/distsys"
	"github.com/DistCompiler/pgo/distsys/tla"
	"github.com/DistCompiler/pgo/distsys/trace"
)

func init() {
	verifRegister("HarnessC18_Faithful", HarnessC18_Faithful)
	verifRegister("HarnessC18_Causal", HarnessC18_Causal)
}

type c18Rec struct{ events []trace.Event }

func (r *c18Rec) RecordEvent(e trace.Event) {
	e.Elements = append([]trace.Element{}, e.Elements...) // the runtime recycles the slice after the call
	r.events = append(r.events, e)
}

type c18Expect struct {
	write    bool
	name     string
	idx      int // -1: no index
	value    tla.Value
	oldValue tla.Value
}

// one archetype, two local variables (v plain, f indexed by k1/k2); a section of K symbolic operations which may be
// aborted by a false await after any operation; every attempt must be logged exactly once with exactly its elements
func HarnessC18_Faithful() {
	rec := &c18Rec{}
	self := tla.MakeNumber(verifNondetInt32("self"))
	v0 := tla.MakeNumber(verifNondetInt32("init"))
	f0, f1 := tla.MakeNumber(verifNondetInt32("init")), tla.MakeNumber(verifNondetInt32("init"))
	const K = 3
	type op struct {
		onF   bool
		idx   int
		write bool
		val   tla.Value
	}
	var prog []op
	for i := 0; i < K; i++ {
		o := op{onF: verifChoose("op.f", 2) == 1, write: verifChoose("op.write", 2) == 1}
		if o.onF {
			o.idx = verifChoose("op.idx", 2)
		}
		if o.write {
			o.val = tla.MakeNumber(verifNondetInt32("op.val"))
		}
		prog = append(prog, o)
	}
	abortsLeft := verifChoose("aborts", 3)
	var attempts [][]c18Expect
	var attemptAborted []bool
	cv, cf := v0, []tla.Value{f0, f1} // committed reference state
	sections := []distsys.MPCalCriticalSection{
		{Name: "A.l1", Body: func(iface distsys.ArchetypeInterface) error {
			wv, wf := cv, []tla.Value{cf[0], cf[1]}
			var exp []c18Expect
			done := func(aborted bool) {
				attempts = append(attempts, exp)
				attemptAborted = append(attemptAborted, aborted)
				if !aborted {
					cv, cf = wv, wf
				}
			}
			for _, o := range prog {
				name, idx := "v", -1
				var indices []tla.Value
				if o.onF {
					name, idx = "f", o.idx
					indices = []tla.Value{c01Keys[o.idx]}
				}
				h := iface.RequireArchetypeResource("A." + name)
				if o.write {
					old := wv
					if o.onF {
						old = wf[o.idx]
					}
					if err := iface.Write(h, indices, o.val); err != nil {
						return err
					}
					exp = append(exp, c18Expect{write: true, name: name, idx: idx, value: o.val, oldValue: old})
					if o.onF {
						wf[o.idx] = o.val
					} else {
						wv = o.val
					}
				} else {
					got, err := iface.Read(h, indices)
					if err != nil {
						return err
					}
					want := wv
					if o.onF {
						want = wf[o.idx]
					}
					verifAssert(got.Equal(want), "replaying the committed writes reproduces the value read from archetype-local state")
					exp = append(exp, c18Expect{name: name, idx: idx, value: want})
				}
				if abortsLeft > 0 && verifNondetBool("abort") {
					abortsLeft--
					done(true)
					return distsys.ErrCriticalSectionAborted
				}
			}
			// Goto is a write of .pc, logged as such
			exp = append(exp, c18Expect{write: true, name: ".pc", idx: -1, value: tla.MakeString("A.Done"), oldValue: tla.MakeString("A.l1")})
			done(false)
			return iface.Goto("A.Done")
		}},
		{Name: "A.Done", Body: func(distsys.ArchetypeInterface) error { return distsys.ErrDone }},
	}
	arch := distsys.MPCalArchetype{Name: "A", Label: "A.l1", JumpTable: distsys.MakeMPCalJumpTable(sections...), ProcTable: distsys.MakeMPCalProcTable(),
		PreAmble: func(iface distsys.ArchetypeInterface) {
			iface.EnsureArchetypeResourceLocal("A.v", v0)
			iface.EnsureArchetypeResourceLocal("A.f", tla.MakeRecord([]tla.RecordField{{Key: c01Keys[0], Value: f0}, {Key: c01Keys[1], Value: f1}}))
		}}
	ctx := distsys.NewMPCalContext(self, arch, distsys.SetTraceRecorder(rec))
	verifAssert(ctx.Run() == nil, "run terminates normally")

	// the run made len(attempts) attempts of l1 and one attempt of Done (which never commits: Run returns at ErrDone)
	verifAssert(len(rec.events) == len(attempts), "every attempt, committed or aborted, is logged exactly once")
	for i := range attempts {
		if i >= len(rec.events) {
			break
		}
		ev := rec.events[i]
		verifAssert(ev.IsAbort == attemptAborted[i], "each logged attempt is flagged commit/abort correctly")
		verifAssert(ev.ArchetypeName == "A" && ev.Self.Equal(self), "each event names its archetype instance")
		verifAssert(ev.Clock.Get("A", self) == i+1, "the archetype's own clock component grows by one per logged attempt")
		// elements: a read of .pc first (the run loop), then exactly the operations performed, in order
		exp := attempts[i]
		verifAssert(len(ev.Elements) == len(exp)+1, "an event holds exactly the reads and writes the attempt performed")
		if len(ev.Elements) != len(exp)+1 {
			continue
		}
		pcRead, ok := ev.Elements[0].(trace.ReadElement)
		verifAssert(ok && pcRead.Name == ".pc" && pcRead.Value.Equal(tla.MakeString("A.l1")), "the program-counter read is logged first")
		for j, x := range exp {
			switch el := ev.Elements[j+1].(type) {
			case trace.ReadElement:
				verifAssert(!x.write && el.Name == x.name && el.Value.Equal(x.value), "a logged read has the right variable and value")
				verifAssert((x.idx < 0 && len(el.Indices) == 0) || (x.idx >= 0 && len(el.Indices) == 1 && el.Indices[0].Equal(c01Keys[x.idx])), "a logged read has the right indices")
			case trace.WriteElement:
				verifAssert(x.write && el.Name == x.name && el.Value.Equal(x.value), "a logged write has the right variable and value")
				verifAssert((x.idx < 0 && len(el.Indices) == 0) || (x.idx >= 0 && len(el.Indices) == 1 && el.Indices[0].Equal(c01Keys[x.idx])), "a logged write has the right indices")
				verifAssert(el.OldValueHint != nil && el.OldValueHint.Equal(x.oldValue), "the previous-value hint of a logged write is the value the variable held just before")
			}
		}
	}
	verifReach("end")
}

// ---- causality between archetypes of one process communicating through shared variables / Go channels ----
//
// C writes y. B's single section performs {write x, read y} in a symbolic order. A reads x.
// A read a value written by B's attempt, so A's logged clock must dominate B's logged clock (which in turn covers C).
func c18OneShot(name string, self tla.Value, rec trace.Recorder, params map[string]distsys.ArchetypeResource, body func(iface distsys.ArchetypeInterface) error) *distsys.MPCalContext {
	sections := []distsys.MPCalCriticalSection{
		{Name: name + ".l1", Body: func(iface distsys.ArchetypeInterface) error {
			if err := body(iface); err != nil {
				return err
			}
			return iface.Goto(name + ".Done")
		}},
		{Name: name + ".Done", Body: func(distsys.ArchetypeInterface) error { return distsys.ErrDone }},
	}
	var refs []string
	cfg := []distsys.MPCalContextConfigFn{distsys.SetTraceRecorder(rec)}
	for _, p := range []string{"x", "y"} {
		if r, ok := params[p]; ok {
			refs = append(refs, name+"."+p)
			cfg = append(cfg, distsys.EnsureArchetypeRefParam(p, r))
		}
	}
	arch := distsys.MPCalArchetype{Name: name, Label: name + ".l1", RequiredRefParams: refs, JumpTable: distsys.MakeMPCalJumpTable(sections...),
		ProcTable: distsys.MakeMPCalProcTable(), PreAmble: func(distsys.ArchetypeInterface) {}}
	return distsys.NewMPCalContext(self, arch, cfg...)
}

func c18Dominates(a, b tla.VClock, ids [][2]interface{}) bool {
	ok := true
	for _, id := range ids {
		n, s := id[0].(string), id[1].(tla.Value)
		ok = ok && a.Get(n, s) >= b.Get(n, s)
	}
	return ok
}

func HarnessC18_Causal() {
	one := tla.MakeNumber(1)
	link := verifChoose("link", 2) // 0: shared variables, 1: Go channel from B to A (y stays a shared variable)
	recA, recB, recC := &c18Rec{}, &c18Rec{}, &c18Rec{}
	xm := NewLocalSharedManager(tla.MakeNumber(0))
	ym := NewLocalSharedManager(tla.MakeNumber(0))
	ch := make(chan tla.Value, 4)
	vx, vy := tla.MakeNumber(verifNondetInt32("vx")), tla.MakeNumber(verifNondetInt32("vy"))
	writeFirst := verifNondetBool("writeFirst")
	var xOut, xIn distsys.ArchetypeResource = xm.MakeLocalShared(), xm.MakeLocalShared()
	if link == 1 {
		xOut, xIn = NewOutputChan(ch), NewInputChan(ch)
	}
	rw := func(iface distsys.ArchetypeInterface, name string, write bool, v tla.Value) (tla.Value, error) {
		h, err := iface.RequireArchetypeResourceRef(name)
		if err != nil {
			return tla.Value{}, err
		}
		if write {
			return tla.Value{}, iface.Write(h, nil, v)
		}
		return iface.Read(h, nil)
	}
	ctxC := c18OneShot("C", one, recC, map[string]distsys.ArchetypeResource{"y": ym.MakeLocalShared()}, func(iface distsys.ArchetypeInterface) error {
		_, err := rw(iface, "C.y", true, vy)
		return err
	})
	ctxB := c18OneShot("B", one, recB, map[string]distsys.ArchetypeResource{"x": xOut, "y": ym.MakeLocalShared()}, func(iface distsys.ArchetypeInterface) error {
		if writeFirst {
			if _, err := rw(iface, "B.x", true, vx); err != nil {
				return err
			}
		}
		got, err := rw(iface, "B.y", false, tla.Value{})
		if err != nil {
			return err
		}
		verifAssert(got.Equal(vy), "B reads what C wrote")
		if !writeFirst {
			if _, err := rw(iface, "B.x", true, vx); err != nil {
				return err
			}
		}
		return nil
	})
	var gotX tla.Value
	ctxA := c18OneShot("A", one, recA, map[string]distsys.ArchetypeResource{"x": xIn}, func(iface distsys.ArchetypeInterface) error {
		v, err := rw(iface, "A.x", false, tla.Value{})
		gotX = v
		return err
	})
	verifAssert(ctxC.Run() == nil && ctxB.Run() == nil && ctxA.Run() == nil, "all three archetypes run to completion, in this order")
	verifAssert(gotX.Equal(vx), "A reads what B wrote")
	verifAssert(len(recA.events) == 1 && len(recB.events) == 1 && len(recC.events) == 1, "one committed attempt is logged per archetype")
	if len(recA.events) == 1 && len(recB.events) == 1 && len(recC.events) == 1 {
		ids := [][2]interface{}{{"A", one}, {"B", one}, {"C", one}}
		verifAssert(c18Dominates(recB.events[0].Clock, recC.events[0].Clock, ids), "B read C's value: B's logged clock dominates C's")
		verifAssert(c18Dominates(recA.events[0].Clock, recB.events[0].Clock, ids), "A read B's value: A's logged clock dominates the writer's logged clock")
	}
	verifReach("end")
}
