//go:build verif

package resources

// C07: variables shared between archetypes of a process are serializable.
// T contexts (goroutines running the REAL Run loop) share two variables x, y through one LocalSharedManager each;
// every context runs 2 sections from a symbolic menu; the schedule is a (delay-bounded) symbolic variable and lock
// time-outs fire when nothing else can run.

import (
	"bytes"
	"encoding/gob"

	"github.com/DistCompiler/pgo/distsys"
	"github.com/DistCompiler/pgo/distsys/tla"
)

func init() {
	verifRegister("HarnessC07_Two", HarnessC07_Two)
	verifRegister("HarnessC07_Three", HarnessC07_Three)
	verifRegister("HarnessC07_Indexed", HarnessC07_Indexed)
	verifRegister("HarnessC07_GetState", HarnessC07_GetState)
}

const (
	c07MoveXY = iota // acquire x then y: x -= a; y += a
	c07MoveYX        // acquire y then x: y -= a; x += a
	c07Snapshot      // read x and y
	c07ReadAbort     // read x, then a false await (once), then read x again
	c07Kinds
)

type c07Shared struct {
	xm, ym *LocalSharedManager
	sum    int32
}

func c07Context(name string, self int32, sh *c07Shared, kinds [2]int, amounts [2]int32, netX *int32) *distsys.MPCalContext {
	abortedOnce := false
	rd := func(iface distsys.ArchetypeInterface, v string) (int32, error) {
		h, err := iface.RequireArchetypeResourceRef(name + "." + v)
		if err != nil {
			return 0, err
		}
		val, err := iface.Read(h, nil)
		if err != nil {
			return 0, err
		}
		return val.AsNumber(), nil
	}
	wr := func(iface distsys.ArchetypeInterface, v string, n int32) error {
		h, err := iface.RequireArchetypeResourceRef(name + "." + v)
		if err != nil {
			return err
		}
		return iface.Write(h, nil, tla.MakeNumber(n))
	}
	body := func(i int, next string) func(iface distsys.ArchetypeInterface) error {
		return func(iface distsys.ArchetypeInterface) error {
			a := amounts[i]
			switch kinds[i] {
			case c07MoveXY:
				x, err := rd(iface, "x")
				if err != nil {
					return err
				}
				verifYield()
				y, err := rd(iface, "y")
				if err != nil {
					return err
				}
				verifAssert(x+y == sh.sum, "a section never sees a state in which the invariant over both shared variables is broken")
				if err := wr(iface, "x", x-a); err != nil {
					return err
				}
				verifYield()
				if err := wr(iface, "y", y+a); err != nil {
					return err
				}
			case c07MoveYX:
				y, err := rd(iface, "y")
				if err != nil {
					return err
				}
				verifYield()
				x, err := rd(iface, "x")
				if err != nil {
					return err
				}
				verifAssert(x+y == sh.sum, "a section never sees a state in which the invariant over both shared variables is broken")
				if err := wr(iface, "y", y-a); err != nil {
					return err
				}
				verifYield()
				if err := wr(iface, "x", x+a); err != nil {
					return err
				}
			case c07Snapshot:
				x, err := rd(iface, "x")
				if err != nil {
					return err
				}
				verifYield()
				y, err := rd(iface, "y")
				if err != nil {
					return err
				}
				x2, err := rd(iface, "x")
				if err != nil {
					return err
				}
				verifAssert(x+y == sh.sum, "a reader's snapshot satisfies the invariant (no dirty read)")
				verifAssert(x2 == x, "reads within one section are repeatable")
			case c07ReadAbort:
				if _, err := rd(iface, "x"); err != nil {
					return err
				}
				if !abortedOnce {
					abortedOnce = true
					return distsys.ErrCriticalSectionAborted
				}
			}
			return iface.Goto(next)
		}
	}
	sections := []distsys.MPCalCriticalSection{
		{Name: name + ".s0", Body: body(0, name+".s1")},
		{Name: name + ".s1", Body: body(1, name+".Done")},
		{Name: name + ".Done", Body: func(distsys.ArchetypeInterface) error { return distsys.ErrDone }},
	}
	for i := 0; i < 2; i++ {
		switch kinds[i] {
		case c07MoveXY:
			*netX -= amounts[i]
		case c07MoveYX:
			*netX += amounts[i]
		}
	}
	arch := distsys.MPCalArchetype{Name: name, Label: name + ".s0", RequiredRefParams: []string{name + ".x", name + ".y"},
		JumpTable: distsys.MakeMPCalJumpTable(sections...), ProcTable: distsys.MakeMPCalProcTable(), PreAmble: func(distsys.ArchetypeInterface) {}}
	return distsys.NewMPCalContext(tla.MakeNumber(self), arch,
		distsys.EnsureArchetypeRefParam("x", sh.xm.MakeLocalShared()), distsys.EnsureArchetypeRefParam("y", sh.ym.MakeLocalShared()))
}

func c07Run(T int) {
	x0, y0 := verifNondetInt32("x0"), verifNondetInt32("y0")
	verifAssume(x0 >= -1000 && x0 <= 1000 && y0 >= -1000 && y0 <= 1000)
	// lock time-out settings: the default and zero (what a configuration that omits the setting yields); in the
	// engine's model of time the length of a positive time-out makes no difference (a time-out fires only when nothing
	// else can run)
	var opts []LocalSharedManagerOption
	if verifChoose("timeout", 2) == 1 {
		opts = append(opts, WithLocalSharedResourceTimeout(0))
	}
	sh := &c07Shared{xm: NewLocalSharedManager(tla.MakeNumber(x0), opts...), ym: NewLocalSharedManager(tla.MakeNumber(y0), opts...), sum: x0 + y0}
	var netX int32
	names := []string{"A", "B", "C"}
	done := make(chan error, 3)
	for t := 0; t < T; t++ {
		var kinds [2]int
		var amounts [2]int32
		for i := 0; i < 2; i++ {
			kinds[i] = verifChoose("kind", c07Kinds)
			amounts[i] = verifNondetInt32("amount")
			verifAssume(amounts[i] >= -100 && amounts[i] <= 100)
		}
		ctx := c07Context(names[t], int32(t+1), sh, kinds, amounts, &netX)
		go func() { done <- ctx.Run() }()
	}
	for t := 0; t < T; t++ {
		verifAssert(<-done == nil, "every sharer terminates normally (no section blocks forever)")
	}
	xf, yf := distsys.VerifLocalValue(sh.xm.res).AsNumber(), distsys.VerifLocalValue(sh.ym.res).AsNumber()
	verifAssert(xf == x0+netX && yf == y0-netX, "the final state is the result of all committed sections in some serial order (no lost update)")
	verifAssert(len(sh.xm.lockCh) == 0 && len(sh.ym.lockCh) == 0, "no lock is held once all sections have ended")
	verifReach("end")
}

func HarnessC07_Two()   { c07Run(2) }
func HarnessC07_Three() { c07Run(3) }

// ---- a function-valued shared variable accessed through indices: bal = [k1 |-> x, k2 |-> y], invariant bal[k1]+bal[k2] ----
//
// Each context runs one transfer section (bal[k1] -= a; bal[k2] += a) whose first attempts may be aborted by a false
// await after the first indexed write (symbolic), and one audit section reading both entries.
func HarnessC07_Indexed() {
	x0, y0 := verifNondetInt32("x0"), verifNondetInt32("y0")
	verifAssume(x0 >= -1000 && x0 <= 1000 && y0 >= -1000 && y0 <= 1000)
	k1, k2 := tla.MakeString("k1"), tla.MakeString("k2")
	mgr := NewLocalSharedManager(tla.MakeRecord([]tla.RecordField{{Key: k1, Value: tla.MakeNumber(x0)}, {Key: k2, Value: tla.MakeNumber(y0)}}))
	sum := x0 + y0
	var net int32
	done := make(chan error, 2)
	names := []string{"A", "B"}
	for t := 0; t < 2; t++ {
		name := names[t]
		a := verifNondetInt32("amount")
		verifAssume(a >= -100 && a <= 100)
		net += a
		aborts := verifChoose("aborts", 2)
		idx := func(iface distsys.ArchetypeInterface, k tla.Value) (int32, error) {
			h, err := iface.RequireArchetypeResourceRef(name + ".bal")
			if err != nil {
				return 0, err
			}
			v, err := iface.Read(h, []tla.Value{k})
			if err != nil {
				return 0, err
			}
			return v.AsNumber(), nil
		}
		put := func(iface distsys.ArchetypeInterface, k tla.Value, n int32) error {
			h, err := iface.RequireArchetypeResourceRef(name + ".bal")
			if err != nil {
				return err
			}
			return iface.Write(h, []tla.Value{k}, tla.MakeNumber(n))
		}
		sections := []distsys.MPCalCriticalSection{
			{Name: name + ".transfer", Body: func(iface distsys.ArchetypeInterface) error {
				x, err := idx(iface, k1)
				if err != nil {
					return err
				}
				y, err := idx(iface, k2)
				if err != nil {
					return err
				}
				verifAssert(x+y == sum, "indexed shared variable: a section never sees a partial or aborted update")
				if err := put(iface, k1, x-a); err != nil {
					return err
				}
				verifYield()
				if aborts > 0 {
					aborts--
					return distsys.ErrCriticalSectionAborted // a false await after the first indexed write
				}
				if err := put(iface, k2, y+a); err != nil {
					return err
				}
				return iface.Goto(name + ".audit")
			}},
			{Name: name + ".audit", Body: func(iface distsys.ArchetypeInterface) error {
				x, err := idx(iface, k1)
				if err != nil {
					return err
				}
				verifYield()
				y, err := idx(iface, k2)
				if err != nil {
					return err
				}
				verifAssert(x+y == sum, "indexed shared variable: an audit sees the invariant (aborted sections leave no effect)")
				return iface.Goto(name + ".Done")
			}},
			{Name: name + ".Done", Body: func(distsys.ArchetypeInterface) error { return distsys.ErrDone }},
		}
		arch := distsys.MPCalArchetype{Name: name, Label: name + ".transfer", RequiredRefParams: []string{name + ".bal"},
			JumpTable: distsys.MakeMPCalJumpTable(sections...), ProcTable: distsys.MakeMPCalProcTable(), PreAmble: func(distsys.ArchetypeInterface) {}}
		ctx := distsys.NewMPCalContext(tla.MakeNumber(int32(t+1)), arch, distsys.EnsureArchetypeRefParam("bal", mgr.MakeLocalShared()))
		go func() { done <- ctx.Run() }()
	}
	for t := 0; t < 2; t++ {
		verifAssert(<-done == nil, "every sharer terminates normally")
	}
	final := distsys.VerifLocalValue(mgr.res)
	verifAssert(final.ApplyFunction(k1).AsNumber() == x0-net && final.ApplyFunction(k2).AsNumber() == y0+net, "indexed shared variable: the final state reflects each committed transfer exactly once")
	verifAssert(len(mgr.lockCh) == 0, "no lock is held at the end")
	verifReach("end")
}

// ---- GetState() of a sharer that does not hold the lock, while another sharer's section is open ----
//
// A's first attempt writes a tentative value to the shared x and then waits for an input that never comes (the read
// times out, the attempt is rolled back); its second attempt writes another value and commits. An observer handle
// (a sharer outside any section) takes snapshots with GetState() at arbitrary moments: every snapshot must be a
// COMMITTED value of x (no dirty read), and the observer must not block for ever.
func HarnessC07_GetState() {
	x0, a, b := verifNondetInt32("x0"), verifNondetInt32("a"), verifNondetInt32("b")
	verifAssume(x0 >= -1000 && x0 <= 1000 && a >= 1 && a <= 100 && b >= -100 && b <= 100 && a != b)
	var opts []LocalSharedManagerOption
	if verifChoose("timeout", 2) == 1 {
		opts = append(opts, WithLocalSharedResourceTimeout(0))
	}
	mgr := NewLocalSharedManager(tla.MakeNumber(x0), opts...)
	never := make(chan tla.Value, 1)
	attempt := 0
	sections := []distsys.MPCalCriticalSection{
		{Name: "A.s0", Body: func(iface distsys.ArchetypeInterface) error {
			attempt++
			hx, err := iface.RequireArchetypeResourceRef("A.x")
			if err != nil {
				return err
			}
			if attempt == 1 {
				if err := iface.Write(hx, nil, tla.MakeNumber(x0+a)); err != nil {
					return err
				}
				hin, err := iface.RequireArchetypeResourceRef("A.in")
				if err != nil {
					return err
				}
				if _, err := iface.Read(hin, nil); err != nil {
					return err // the input never arrives: time-out, the attempt is rolled back
				}
			}
			if err := iface.Write(hx, nil, tla.MakeNumber(x0+b)); err != nil {
				return err
			}
			return iface.Goto("A.Done")
		}},
		{Name: "A.Done", Body: func(distsys.ArchetypeInterface) error { return distsys.ErrDone }},
	}
	arch := distsys.MPCalArchetype{Name: "A", Label: "A.s0", RequiredRefParams: []string{"A.x", "A.in"},
		JumpTable: distsys.MakeMPCalJumpTable(sections...), ProcTable: distsys.MakeMPCalProcTable(), PreAmble: func(distsys.ArchetypeInterface) {}}
	ctx := distsys.NewMPCalContext(tla.MakeNumber(1), arch,
		distsys.EnsureArchetypeRefParam("x", mgr.MakeLocalShared()), distsys.EnsureArchetypeRefParam("in", NewInputChan(never)))
	done := make(chan error, 1)
	go func() { done <- ctx.Run() }()
	obs := mgr.MakeLocalShared()
	snaps := make(chan int32, 2)
	go func() {
		for i := 0; i < 2; i++ {
			raw, err := obs.GetState()
			verifAssert(err == nil, "GetState does not fail")
			var v tla.Value
			derr := gob.NewDecoder(bytes.NewBuffer(raw)).Decode(&v)
			verifAssert(derr == nil, "the snapshot decodes")
			snaps <- v.AsNumber()
			verifYield()
		}
	}()
	for i := 0; i < 2; i++ {
		v := <-snaps
		verifAssert(v == x0 || v == x0+b, "a snapshot taken by a sharer outside any section is a committed value (no dirty read of an open section's write)")
	}
	verifAssert(<-done == nil, "the sharer terminates normally")
	verifAssert(attempt == 2, "the first attempt was rolled back, the second committed")
	verifAssert(distsys.VerifLocalValue(mgr.res).AsNumber() == x0+b, "the committed value is the second attempt's")
	verifAssert(len(mgr.lockCh) == 0, "no lock is held at the end")
	verifReach("end")
}
