//go:build verif

package resources

// C07: variables shared between archetypes of a process are serializable.
// T contexts (goroutines running the REAL Run loop) share two variables x, y through one LocalSharedManager each;
// every context runs 2 sections from a symbolic menu; the schedule is a (delay-bounded) symbolic variable and lock
// time-outs fire when nothing else can run.

import (
	"github.com/DistCompiler/pgo/distsys"
	"github.com/DistCompiler/pgo/distsys/tla"
)

func init() {
	verifRegister("HarnessC07_Two", HarnessC07_Two)
	verifRegister("HarnessC07_Three", HarnessC07_Three)
}

const (
	c07MoveXY = iota // acquire x then y: x -= a; y += a
	c07MoveYX        // acquire y then x: y -= a; x += a
	c07Snapshot      // read x and y
	c07ReadAbort     // read x, then a false await (once), then read x again
	c07Kinds
)

type c07Shared struct {
	xm, ym *LocalSharedManager
	sum    int32
}

func c07Context(name string, self int32, sh *c07Shared, kinds [2]int, amounts [2]int32, netX *int32) *distsys.MPCalContext {
	abortedOnce := false
	rd := func(iface distsys.ArchetypeInterface, v string) (int32, error) {
		h, err := iface.RequireArchetypeResourceRef(name + "." + v)
		if err != nil {
			return 0, err
		}
		val, err := iface.Read(h, nil)
		if err != nil {
			return 0, err
		}
		return val.AsNumber(), nil
	}
	wr := func(iface distsys.ArchetypeInterface, v string, n int32) error {
		h, err := iface.RequireArchetypeResourceRef(name + "." + v)
		if err != nil {
			return err
		}
		return iface.Write(h, nil, tla.MakeNumber(n))
	}
	body := func(i int, next string) func(iface distsys.ArchetypeInterface) error {
		return func(iface distsys.ArchetypeInterface) error {
			a := amounts[i]
			switch kinds[i] {
			case c07MoveXY:
				x, err := rd(iface, "x")
				if err != nil {
					return err
				}
				verifYield()
				y, err := rd(iface, "y")
				if err != nil {
					return err
				}
				verifAssert(x+y == sh.sum, "a section never sees a state in which the invariant over both shared variables is broken")
				if err := wr(iface, "x", x-a); err != nil {
					return err
				}
				verifYield()
				if err := wr(iface, "y", y+a); err != nil {
					return err
				}
			case c07MoveYX:
				y, err := rd(iface, "y")
				if err != nil {
					return err
				}
				verifYield()
				x, err := rd(iface, "x")
				if err != nil {
					return err
				}
				verifAssert(x+y == sh.sum, "a section never sees a state in which the invariant over both shared variables is broken")
				if err := wr(iface, "y", y-a); err != nil {
					return err
				}
				verifYield()
				if err := wr(iface, "x", x+a); err != nil {
					return err
				}
			case c07Snapshot:
				x, err := rd(iface, "x")
				if err != nil {
					return err
				}
				verifYield()
				y, err := rd(iface, "y")
				if err != nil {
					return err
				}
				x2, err := rd(iface, "x")
				if err != nil {
					return err
				}
				verifAssert(x+y == sh.sum, "a reader's snapshot satisfies the invariant (no dirty read)")
				verifAssert(x2 == x, "reads within one section are repeatable")
			case c07ReadAbort:
				if _, err := rd(iface, "x"); err != nil {
					return err
				}
				if !abortedOnce {
					abortedOnce = true
					return distsys.ErrCriticalSectionAborted
				}
			}
			return iface.Goto(next)
		}
	}
	sections := []distsys.MPCalCriticalSection{
		{Name: name + ".s0", Body: body(0, name+".s1")},
		{Name: name + ".s1", Body: body(1, name+".Done")},
		{Name: name + ".Done", Body: func(distsys.ArchetypeInterface) error { return distsys.ErrDone }},
	}
	for i := 0; i < 2; i++ {
		switch kinds[i] {
		case c07MoveXY:
			*netX -= amounts[i]
		case c07MoveYX:
			*netX += amounts[i]
		}
	}
	arch := distsys.MPCalArchetype{Name: name, Label: name + ".s0", RequiredRefParams: []string{name + ".x", name + ".y"},
		JumpTable: distsys.MakeMPCalJumpTable(sections...), ProcTable: distsys.MakeMPCalProcTable(), PreAmble: func(distsys.ArchetypeInterface) {}}
	return distsys.NewMPCalContext(tla.MakeNumber(self), arch,
		distsys.EnsureArchetypeRefParam("x", sh.xm.MakeLocalShared()), distsys.EnsureArchetypeRefParam("y", sh.ym.MakeLocalShared()))
}

func c07Run(T int) {
	x0, y0 := verifNondetInt32("x0"), verifNondetInt32("y0")
	verifAssume(x0 >= -1000 && x0 <= 1000 && y0 >= -1000 && y0 <= 1000)
	sh := &c07Shared{xm: NewLocalSharedManager(tla.MakeNumber(x0)), ym: NewLocalSharedManager(tla.MakeNumber(y0)), sum: x0 + y0}
	var netX int32
	names := []string{"A", "B", "C"}
	done := make(chan error, 3)
	for t := 0; t < T; t++ {
		var kinds [2]int
		var amounts [2]int32
		for i := 0; i < 2; i++ {
			kinds[i] = verifChoose("kind", c07Kinds)
			amounts[i] = verifNondetInt32("amount")
			verifAssume(amounts[i] >= -100 && amounts[i] <= 100)
		}
		ctx := c07Context(names[t], int32(t+1), sh, kinds, amounts, &netX)
		go func() { done <- ctx.Run() }()
	}
	for t := 0; t < T; t++ {
		verifAssert(<-done == nil, "every sharer terminates normally (no section blocks forever)")
	}
	xf, yf := distsys.VerifLocalValue(sh.xm.res).AsNumber(), distsys.VerifLocalValue(sh.ym.res).AsNumber()
	verifAssert(xf == x0+netX && yf == y0-netX, "the final state is the result of all committed sections in some serial order (no lost update)")
	verifAssert(len(sh.xm.lockCh) == 0 && len(sh.ym.lockCh) == 0, "no lock is held once all sections have ended")
	verifReach("end")
}

func HarnessC07_Two()   { c07Run(2) }
func HarnessC07_Three() { c07Run(3) }
