//go:build verif

package resources

// C11: the two-phase-commit variable behaves as one copy and does not livelock.
// Handler level (inductive): arbitrary acceptor state x arbitrary request, senders/values given either as the very
// pointer the acceptor stored (in-process transport) or as an Equal copy produced by gob (RPC transport).
// Proposer level: the real PreCommit/doPreCommit/broadcast/rollback/Commit against replica handles with symbolic replies.

import (
	"bytes"
	"encoding/gob"
	"errors"

	"github.com/DistCompiler/pgo/distsys"
	"github.com/DistCompiler/pgo/distsys/tla"
)

func init() {
	verifRegister("HarnessC11_Acceptor", HarnessC11_Acceptor)
	verifRegister("HarnessC11_Poison", HarnessC11_Poison)
	verifRegister("HarnessC11_Proposer", HarnessC11_Proposer)
	verifRegister("HarnessC11_Protocol", HarnessC11_Protocol)
	verifRegister("HarnessC11_ProtocolOne", HarnessC11_ProtocolOne)
}

func c11Copy(v tla.Value) tla.Value {
	// what a value looks like after RPC transport: Equal, but a different object
	var buf bytes.Buffer
	if err := gob.NewEncoder(&buf).Encode(&v); err != nil {
		panic(err)
	}
	var out tla.Value
	if err := gob.NewDecoder(&buf).Decode(&out); err != nil {
		panic(err)
	}
	return out
}

func c11Resource(version int, id tla.Value) *TwoPCArchetypeResource {
	return &TwoPCArchetypeResource{
		criticalSectionState: notInCriticalSection,
		twoPCState:           initial,
		archetypeID:          id,
		logLevel:             offLevel,
		version:              version,
		senderTimes:          make(map[tla.Value]int64),
	}
}

var c11Ids = []tla.Value{tla.MakeString("n1"), tla.MakeString("n2"), tla.MakeString("n3")}

func HarnessC11_Acceptor() {
	version := verifNondetInt("version")
	verifAssume(version >= 0 && version <= 1000)
	res := c11Resource(version, c11Ids[0])
	res.value = tla.MakeNumber(verifNondetInt32("value"))
	res.oldValue = tla.MakeNumber(verifNondetInt32("oldValue"))
	res.criticalSectionState = CriticalSectionState(verifChoose("cs", 6))
	holding := verifChoose("holding", 2) == 1
	heldSender := c11Ids[1+verifChoose("heldSender", 2)]
	heldValue := tla.MakeNumber(verifNondetInt32("heldValue"))
	heldVersion := verifNondetInt("heldVersion")
	if holding {
		verifAssume(heldVersion > version && heldVersion <= version+2) // representation invariant: a held pre-commit is for a future version
		// ... and an acceptor holding someone's pre-commit is not itself between PreCommit and Commit: doPreCommit
		// refuses to start while a pre-commit is held, and pre-commits are rejected while one's own is in flight
		verifAssume(res.criticalSectionState != inPreCommit && res.criticalSectionState != hasPreCommitted)
		res.twoPCState = acceptedPreCommit
		res.acceptedPreCommit = TwoPCRequest{RequestType: PreCommit, Value: heldValue, Sender: heldSender, Version: heldVersion}
	}
	// the request
	reqType := TwoPCRequestType(verifChoose("reqType", 3))
	reqVersion := verifNondetInt("reqVersion")
	verifAssume(reqVersion >= version-1 && reqVersion <= version+3)
	sameSender := verifChoose("sameSender", 2) == 1
	copied := verifChoose("copied", 2) == 1 // RPC transport: Equal copies instead of the stored pointers
	reqSender := c11Ids[1+verifChoose("otherSender", 2)]
	reqValue := tla.MakeNumber(verifNondetInt32("reqValue"))
	if sameSender {
		reqSender = heldSender
	}
	sameValue := verifChoose("sameValue", 2) == 1
	if sameValue {
		reqValue = heldValue
	}
	if copied {
		reqSender, reqValue = c11Copy(reqSender), c11Copy(reqValue)
	}
	req := TwoPCRequest{RequestType: reqType, Value: reqValue, Sender: reqSender, Version: reqVersion}
	senderEq := holding && reqSender.Equal(heldSender)
	valueEq := holding && reqValue.Equal(heldValue)
	cs0, st0, old0, val0 := res.criticalSectionState, res.twoPCState, res.oldValue, res.value
	var reply TwoPCResponse
	err := res.receiveInternal(req, &reply) // REAL
	verifAssert(err == nil, "handler returns no error")
	verifAssert(res.version >= version, "versions only grow")
	switch {
	case reqVersion < version+1:
		verifAssert(!reply.Accept && reply.Version == version && reply.Value.Equal(old0), "a stale request is rejected with the current version and committed value")
		verifAssert(res.version == version && res.twoPCState == st0 && res.criticalSectionState == cs0 && res.value.Equal(val0), "a stale request changes nothing")
	case reqType == PreCommit:
		canAccept := cs0.canAcceptPreCommit()
		switch {
		case holding && heldVersion == reqVersion && senderEq && valueEq:
			verifAssert(reply.Accept, "a repeated identical pre-commit is accepted again (duplication is harmless), over either transport")
		case holding && heldVersion == reqVersion && !senderEq:
			verifAssert(!reply.Accept && res.twoPCState == acceptedPreCommit && res.acceptedPreCommit.Sender.Equal(heldSender), "at most one proposer is accepted per version: a competing pre-commit is rejected")
		case !holding && canAccept:
			verifAssert(reply.Accept && res.twoPCState == acceptedPreCommit && res.acceptedPreCommit.Version == reqVersion, "a free acceptor accepts a pre-commit for the next version")
		case !canAccept && !(holding && heldVersion == reqVersion && senderEq && valueEq):
			verifAssert(!reply.Accept, "an acceptor that is itself pre-committing rejects")
		}
		verifAssert(res.version == version && res.value.Equal(val0) && res.oldValue.Equal(old0), "a pre-commit installs nothing")
	case reqType == Commit:
		verifAssert(reply.Accept && res.version == reqVersion && res.value.Equal(reqValue) && res.oldValue.Equal(reqValue), "a commit installs exactly its value and version")
		if holding && heldVersion <= reqVersion {
			verifAssert(res.twoPCState == initial, "a commit clears a held pre-commit of that or an earlier version")
		}
		if cs0 != notInCriticalSection {
			verifAssert(res.criticalSectionState == acceptedNewValueInCriticalSection, "a value installed while a local section is open poisons that section")
		}
	case reqType == Abort:
		verifAssert(reply.Accept && res.version == version && res.value.Equal(val0), "an abort installs nothing")
		if holding && senderEq {
			verifAssert(res.twoPCState == initial, "an abort from the proposer whose pre-commit is held releases it (identically over in-process and RPC transports)")
		}
		if holding && !senderEq {
			verifAssert(res.twoPCState == acceptedPreCommit, "an abort from another proposer does not release the held pre-commit")
		}
	}
	verifReach("end")
}

// a section poisoned by an installed value aborts every further operation until Abort
func HarnessC11_Poison() {
	res := c11Resource(3, c11Ids[0])
	res.value, res.oldValue = tla.MakeNumber(verifNondetInt32("v")), tla.MakeNumber(verifNondetInt32("v"))
	iface := distsys.ArchetypeInterface{}
	if verifNondetBool("readFirst") {
		_, err := res.ReadValue(iface)
		verifAssert(err == nil, "read enters the section")
	} else {
		verifAssert(res.WriteValue(iface, tla.MakeNumber(1)) == nil, "write enters the section")
	}
	nv := tla.MakeNumber(verifNondetInt32("nv"))
	var reply TwoPCResponse
	_ = res.receiveInternal(TwoPCRequest{RequestType: Commit, Value: nv, Sender: c11Ids[1], Version: 4}, &reply)
	_, rerr := res.ReadValue(iface)
	werr := res.WriteValue(iface, tla.MakeNumber(2))
	verifAssert(rerr == distsys.ErrCriticalSectionAborted && werr == distsys.ErrCriticalSectionAborted, "a section that read a value which was overwritten before it committed cannot continue")
	perr := <-res.PreCommit(iface)
	verifAssert(perr == distsys.ErrCriticalSectionAborted, "a poisoned section cannot pre-commit")
	res.Abort(iface)
	got, err := res.ReadValue(iface)
	verifAssert(err == nil && got.Equal(nv), "after the abort the next section reads the installed value")
	verifReach("end")
}

// ---- proposer against replica handles with symbolic replies ----

type c11Handle struct {
	mode    int // 0 accept, 1 reject (stale version), 2 transport error, 3 reject with a newer version/value
	log     *[]TwoPCRequest
	version int
	value   tla.Value
	errOnce bool
}

func (h *c11Handle) Close() error { return nil }
func (h *c11Handle) Send(req TwoPCRequest, reply *TwoPCResponse) chan error {
	ch := make(chan error, 1)
	*h.log = append(*h.log, req)
	if req.RequestType != PreCommit {
		*reply = makeAccept()
		ch <- nil
		return ch
	}
	switch h.mode {
	case 0:
		*reply = makeAccept()
		ch <- nil
	case 1:
		*reply = TwoPCResponse{Accept: false, Version: h.version, Value: h.value}
		ch <- nil
	case 2:
		ch <- errors.New("transport failure")
	case 3:
		*reply = TwoPCResponse{Accept: false, Version: h.version + 5, Value: h.value}
		ch <- nil
	}
	return ch
}

func HarnessC11_Proposer() {
	n := 2 + verifChoose("replicas", 2)
	res := c11Resource(7, c11Ids[0])
	v0 := tla.MakeNumber(verifNondetInt32("v0"))
	res.value, res.oldValue = v0, v0
	logs := make([][]TwoPCRequest, n)
	accepts := 0
	newer := false
	for i := 0; i < n; i++ {
		h := &c11Handle{mode: verifChoose("reply", 4), log: &logs[i], version: 7, value: v0}
		if h.mode == 0 {
			accepts++
		}
		if h.mode == 3 {
			newer = true
		}
		res.replicas = append(res.replicas, h)
	}
	iface := distsys.ArchetypeInterface{}
	nv := tla.MakeNumber(verifNondetInt32("nv"))
	verifAssert(res.WriteValue(iface, nv) == nil, "write enters the section")
	err := <-res.PreCommit(iface) // REAL
	majority := accepts*2 >= n // n replicas + the proposer itself: accepts+1 > (n+1)/2
	if n%2 == 1 {
		majority = accepts >= n/2+1
	}
	if err == nil {
		verifAssert(majority, "a pre-commit only succeeds with a majority of acceptances")
		<-orNil(res.Commit(iface))
		verifAssert(res.version == 8 && res.oldValue.Equal(nv), "commit bumps the version exactly once and installs the written value")
		verifQuiesce()
		sent := 0
		for i := 0; i < n; i++ {
			sawCommit := false
			for _, r := range logs[i] {
				if r.RequestType == Commit {
					verifAssert(r.Version == 8 && r.Value.Equal(nv) && !sawCommit, "a replica is sent the commit of the new version at most once, with the committed value")
					sawCommit = true
				}
			}
			if sawCommit {
				sent++
			}
		}
		verifAssert(sent*2 >= n, "the commit reaches a majority (the other replicas learn the value from later rejections)")
	} else {
		verifAssert(err == distsys.ErrCriticalSectionAborted, "a failed pre-commit aborts the section")
		verifAssert(!majority || newer, "a pre-commit with a majority of acceptances (and no newer value learnt) succeeds")
		verifQuiesce()
		for i := 0; i < n; i++ {
			sawAbort := false
			for _, r := range logs[i] {
				if r.RequestType == Abort {
					sawAbort = true
					verifAssert(r.Sender.Equal(c11Ids[0]), "the abort names the proposer")
				}
			}
			verifAssert(sawAbort, "on failure every replica is sent an abort releasing the proposal")
		}
		res.Abort(iface)
		got, rerr := res.ReadValue(iface)
		if !newer {
			verifAssert(rerr == nil && got.Equal(v0), "after a failed proposal the variable still reads the last committed value")
		}
	}
	verifReach("end")
}

func orNil(ch chan struct{}) chan struct{} {
	if ch == nil {
		c := make(chan struct{}, 1)
		c <- struct{}{}
		return c
	}
	return ch
}

// ---- protocol level: 3 real resources, each one writing section, transports copying or sharing ----

type c11Wire struct {
	target *TwoPCArchetypeResource
	copy   bool
}

func (w *c11Wire) Close() error { return nil }
func (w *c11Wire) Send(req TwoPCRequest, reply *TwoPCResponse) chan error {
	ch := make(chan error, 1)
	verifYield() // message delay: other nodes may run before delivery
	if w.copy {
		req.Sender, req.Value = c11Copy(req.Sender), c11Copy(req.Value)
	}
	err := w.target.receiveInternal(req, reply)
	if w.copy && err == nil {
		reply.Value = c11Copy(reply.Value)
	}
	ch <- err
	return ch
}

func HarnessC11_Protocol()    { c11Protocol(2) }
func HarnessC11_ProtocolOne() { c11Protocol(1) }

func c11Protocol(writers int) {
	const N = 3
	copying := verifChoose("copying", 2) == 1
	var nodes []*TwoPCArchetypeResource
	for i := 0; i < N; i++ {
		r := c11Resource(0, c11Ids[i])
		r.value, r.oldValue = tla.MakeNumber(0), tla.MakeNumber(0)
		nodes = append(nodes, r)
	}
	for i := 0; i < N; i++ {
		for j := 0; j < N; j++ {
			if i != j {
				nodes[i].replicas = append(nodes[i].replicas, &c11Wire{target: nodes[j], copy: copying})
			}
		}
	}
	done := make(chan bool, N)
	committed := make([]bool, N)
	iface := distsys.ArchetypeInterface{}
	for w := 0; w < writers; w++ {
		w := w
		val := tla.MakeNumber(verifNondetInt32("val"))
		go func() {
			n := nodes[w]
			for attempt := 0; attempt < 2 && !committed[w]; attempt++ {
				cur, err := n.ReadValue(iface)
				_ = cur
				if err == nil {
					err = n.WriteValue(iface, val)
				}
				if err == nil {
					err = <-n.PreCommit(iface)
				}
				if err == nil {
					<-orNil(n.Commit(iface))
					committed[w] = true
				} else {
					n.Abort(iface)
				}
				verifYield()
			}
			done <- true
		}()
	}
	for w := 0; w < writers; w++ {
		<-done
	}
	verifQuiesce()
	// single-copy behaviour: replicas at the same version hold Equal values; versions reflect the number of commits seen
	for i := 0; i < N; i++ {
		for j := i + 1; j < N; j++ {
			if nodes[i].version == nodes[j].version {
				verifAssert(nodes[i].oldValue.Equal(nodes[j].oldValue), "replicas at the same version hold the same value")
			}
		}
	}
	ncommitted := 0
	for w := 0; w < writers; w++ {
		if committed[w] {
			ncommitted++
		}
	}
	maxv := 0
	for i := 0; i < N; i++ {
		if nodes[i].version > maxv {
			maxv = nodes[i].version
		}
	}
	verifAssert(maxv == ncommitted, "every committed section produced exactly one version (at most one proposer wins each version)")
	for i := 0; i < N; i++ {
		verifAssert(nodes[i].twoPCState == initial || committedSomewhere(nodes, nodes[i].acceptedPreCommit), "no replica is left holding a proposal that was rolled back")
	}
	verifReach("end")
}

func committedSomewhere(nodes []*TwoPCArchetypeResource, req TwoPCRequest) bool {
	// a held pre-commit is legitimate only while its proposer is still going to commit it; at quiescence none is
	return false
}
