//go:build verif

package resources

// C12: CRDT data types are semilattices with their declared read semantics.
// Real code: GCounter / vclock / AWORSet / LWWSet Init, Read, Write, Merge, compare, mergeKeys and gob codecs.

import (
	"time"

	"github.com/DistCompiler/pgo/distsys/tla"
	"github.com/benbjohnson/immutable"
)

func init() {
	verifRegister("HarnessC12_GCounterLaws", HarnessC12_GCounterLaws)
	verifRegister("HarnessC12_GCounterOps", HarnessC12_GCounterOps)
	verifRegister("HarnessC12_VClockCompare", HarnessC12_VClockCompare)
	verifRegister("HarnessC12_AWORSetLaws", HarnessC12_AWORSetLaws)
	verifRegister("HarnessC12_AWORSetHistory", HarnessC12_AWORSetHistory)
	verifRegister("HarnessC12_AWORSetOrder", HarnessC12_AWORSetOrder)
	verifRegister("HarnessC12_LWWLaws", HarnessC12_LWWLaws)
	verifRegister("HarnessC12_Gob", HarnessC12_Gob)
}

var c12IDs = []tla.Value{tla.MakeString("r1"), tla.MakeString("r2"), tla.MakeString("r3")}

const c12MaxCount = 1 << 20

// arbitrary counter over the first n replica ids; a symbolic presence bit per id
func c12Counter(tag string, n int) GCounter {
	m := immutable.NewMap[tla.Value, int32](tla.ValueHasher{})
	for i := 0; i < n; i++ {
		if verifChoose(tag+".has", 2) == 1 {
			v := verifNondetInt32(tag + ".cnt")
			verifAssume(v >= 0 && v <= c12MaxCount)
			m = m.Set(c12IDs[i], v)
		}
	}
	return GCounter{m}
}

func c12Get(c GCounter, id tla.Value) int32 {
	v, ok := c.Get(id)
	if !ok {
		return 0
	}
	return v
}

func c12CounterEq(a, b GCounter) bool {
	ok := true
	for _, id := range c12IDs {
		ok = ok && c12Get(a, id) == c12Get(b, id)
	}
	return ok
}

func c12Max(a, b int32) int32 {
	if a > b {
		return a
	}
	return b
}

func HarnessC12_GCounterLaws() {
	a, b, c := c12Counter("a", 3), c12Counter("b", 3), c12Counter("c", 2)
	ab := a.Merge(b).(GCounter)
	ba := b.Merge(a).(GCounter)
	verifAssert(c12CounterEq(ab, ba), "GCounter merge is commutative")
	verifAssert(c12CounterEq(a.Merge(a).(GCounter), a), "GCounter merge is idempotent")
	l := ab.Merge(c).(GCounter)
	r := a.Merge(b.Merge(c)).(GCounter)
	verifAssert(c12CounterEq(l, r), "GCounter merge is associative")
	for _, id := range c12IDs {
		verifAssert(c12Get(ab, id) == c12Max(c12Get(a, id), c12Get(b, id)), "GCounter merge is the point-wise maximum")
	}
	verifAssert(ab.Read().Equal(ba.Read()), "replicas with the same updates read the same counter")
	verifReach("end")
}

func HarnessC12_GCounterOps() {
	a := c12Counter("a", 3)
	who := verifChoose("who", 3)
	inc := verifNondetInt32("inc")
	verifAssume(inc >= 0 && inc <= c12MaxCount)
	w := a.Write(c12IDs[who], tla.MakeNumber(inc)).(GCounter)
	for i, id := range c12IDs {
		if i == who {
			verifAssert(c12Get(w, id) == c12Get(a, id)+inc, "GCounter write adds to the writer's entry")
		} else {
			verifAssert(c12Get(w, id) == c12Get(a, id), "GCounter write leaves other entries alone")
		}
	}
	sum := c12Get(a, c12IDs[0]) + c12Get(a, c12IDs[1]) + c12Get(a, c12IDs[2])
	verifAssert(a.Read().AsNumber() == sum, "GCounter reads the sum of all increments")
	verifAssert(c12CounterEq(a.Merge(w).(GCounter), w) && c12CounterEq(w.Merge(a).(GCounter), w), "a local update never moves the state down the merge order")
	init := GCounter{}.Init().(GCounter)
	verifAssert(init.Read().AsNumber() == 0 && c12CounterEq(init.Merge(a).(GCounter), a), "Init is the bottom element")
	verifReach("end")
}

func HarnessC12_VClockCompare() {
	a, b := c12Counter("a", 2), c12Counter("b", 2)
	le, ge := true, true
	for _, id := range c12IDs[:2] {
		le = le && c12Get(a, id) <= c12Get(b, id)
		ge = ge && c12Get(a, id) >= c12Get(b, id)
	}
	want := CC
	switch {
	case le && ge:
		want = EQ
	case le:
		want = LT
	case ge:
		want = GT
	}
	verifAssert(a.compare(b) == want, "vector clock compare is the product order")
	verifReach("end")
}

// ---------------- AWORSet

var c12Elems = []tla.Value{tla.MakeString("x"), tla.MakeString("y")}

func c12NonEmptyClock(tag string, n int) vclock {
	c := c12Counter(tag, n)
	nz := false
	for _, id := range c12IDs {
		nz = nz || c12Get(c, id) > 0
	}
	verifAssume(nz)
	return c
}

// arbitrary AWORSet over the first ne elements satisfying the representation invariant: add and rem key sets are
// disjoint and every clock is non-empty
func c12AWORSet(tag string, ne, nid int) AWORSet {
	s := AWORSet{}.Init().(AWORSet)
	for i := 0; i < ne; i++ {
		switch verifChoose(tag+".where", 3) {
		case 1:
			s.addMap = s.addMap.Set(c12Elems[i], c12NonEmptyClock(tag+".add", nid))
		case 2:
			s.remMap = s.remMap.Set(c12Elems[i], c12NonEmptyClock(tag+".rem", nid))
		}
	}
	return s
}

func c12AWInv(s AWORSet) bool {
	ok := true
	for _, e := range c12Elems {
		_, inAdd := s.addMap.Get(e)
		_, inRem := s.remMap.Get(e)
		ok = ok && !(inAdd && inRem)
	}
	return ok
}

func c12AWEq(a, b AWORSet) bool {
	ok := true
	for _, e := range c12Elems {
		ac, aok := a.addMap.Get(e)
		bc, bok := b.addMap.Get(e)
		ok = ok && aok == bok
		if aok && bok {
			ok = ok && c12CounterEq(ac, bc)
		}
		ac, aok = a.remMap.Get(e)
		bc, bok = b.remMap.Get(e)
		ok = ok && aok == bok
		if aok && bok {
			ok = ok && c12CounterEq(ac, bc)
		}
	}
	return ok
}

func c12Cmd(cmd int32, e tla.Value) tla.Value {
	return tla.MakeRecord([]tla.RecordField{{Key: cmdKey, Value: tla.MakeNumber(cmd)}, {Key: elemKey, Value: e}})
}

func HarnessC12_AWORSetLaws() {
	a, b := c12AWORSet("a", 1, 2), c12AWORSet("b", 1, 2)
	ab := a.Merge(b).(AWORSet)
	ba := b.Merge(a).(AWORSet)
	verifAssert(c12AWInv(ab), "AWORSet merge preserves the representation invariant")
	verifAssert(c12AWEq(ab, ba), "AWORSet merge is commutative")
	verifAssert(ab.Read().Equal(ba.Read()), "AWORSet: both merge orders read the same set")
	verifAssert(c12AWEq(a.Merge(a).(AWORSet), a), "AWORSet merge is idempotent")
	// local update: inflation and read semantics
	cmd := int32(addOp)
	if verifNondetBool("rem") {
		cmd = remOp
	}
	who := c12IDs[verifChoose("who", 2)]
	w := a.Write(who, c12Cmd(cmd, c12Elems[0])).(AWORSet)
	verifAssert(c12AWInv(w), "AWORSet write preserves the representation invariant")
	verifAssert(c12AWEq(a.Merge(w).(AWORSet), w) && c12AWEq(w.Merge(a).(AWORSet), w), "AWORSet: a local update never moves the state down the merge order")
	in := tla.ModuleInSymbol(c12Elems[0], w.Read()).AsBool()
	verifAssert(in == (cmd == addOp), "AWORSet: after a local add the element is present, after a local remove absent")
	verifReach("end")
}

// Same updates, different merge order: four replicas write once each (A; B optionally after seeing A; C; D optionally
// after seeing C); whatever the association/order of the final merges, the reads must agree.
func HarnessC12_AWORSetHistory() {
	e := c12Elems[0]
	ids := []tla.Value{tla.MakeString("A"), tla.MakeString("B"), tla.MakeString("C"), tla.MakeString("D")}
	cmds := make([]int32, 4)
	for i := range cmds {
		cmds[i] = addOp
		if verifNondetBool("rem") {
			cmds[i] = remOp
		}
	}
	init := AWORSet{}.Init().(AWORSet)
	a := init.Write(ids[0], c12Cmd(cmds[0], e)).(AWORSet)
	b := init
	bSeesA := verifNondetBool("bSeesA")
	if bSeesA {
		b = b.Merge(a).(AWORSet)
	}
	b = b.Write(ids[1], c12Cmd(cmds[1], e)).(AWORSet)
	c := init.Write(ids[2], c12Cmd(cmds[2], e)).(AWORSet)
	d := init
	dSeesC := verifNondetBool("dSeesC")
	if dSeesC {
		d = d.Merge(c).(AWORSet)
	}
	d = d.Write(ids[3], c12Cmd(cmds[3], e)).(AWORSet)
	states := []AWORSet{a, b, c, d}
	// add-wins reference: present iff some add is not observed by a remove
	sees := [4][4]bool{}
	sees[1][0] = bSeesA
	sees[3][2] = dSeesC
	want := false
	for i := 0; i < 4; i++ {
		if cmds[i] != addOp {
			continue
		}
		observed := false
		for j := 0; j < 4; j++ {
			if cmds[j] == remOp && sees[j][i] {
				observed = true
			}
		}
		if !observed {
			want = true
		}
	}
	perm := c12Perms4[verifChoose("order", len(c12Perms4))]
	w, x, y, z := states[perm[0]], states[perm[1]], states[perm[2]], states[perm[3]]
	var r AWORSet
	switch verifChoose("assoc", 3) {
	case 0:
		r = w.Merge(x).Merge(y).Merge(z).(AWORSet)
	case 1:
		r = w.Merge(x.Merge(y.Merge(z))).(AWORSet)
	default:
		r = w.Merge(x).Merge(y.Merge(z)).(AWORSet)
	}
	got := tla.ModuleInSymbol(e, r.Read()).AsBool()
	verifAssert(got == want, "AWORSet: after all replicas' updates are merged (any order), the element is present iff some add was not observed by a remove")
	verifReach("end")
}

var c12Perms4 = [][]int{
	{0, 1, 2, 3}, {0, 1, 3, 2}, {0, 2, 1, 3}, {0, 2, 3, 1}, {0, 3, 1, 2}, {0, 3, 2, 1},
	{1, 0, 2, 3}, {1, 0, 3, 2}, {1, 2, 0, 3}, {1, 2, 3, 0}, {1, 3, 0, 2}, {1, 3, 2, 0},
	{2, 0, 1, 3}, {2, 0, 3, 1}, {2, 1, 0, 3}, {2, 1, 3, 0}, {2, 3, 0, 1}, {2, 3, 1, 0},
	{3, 0, 1, 2}, {3, 0, 2, 1}, {3, 1, 0, 2}, {3, 1, 2, 0}, {3, 2, 0, 1}, {3, 2, 1, 0},
}

// two replicas, up to 3 operations with full knowledge exchange in between: add-wins reference
func HarnessC12_AWORSetOrder() {
	e := c12Elems[0]
	A, B := AWORSet{}.Init().(AWORSet), AWORSet{}.Init().(AWORSet)
	present := false
	n := 1 + verifChoose("n", 3)
	for i := 0; i < n; i++ {
		rem := verifNondetBool("rem")
		atB := verifNondetBool("atB")
		cmd := int32(addOp)
		if rem {
			cmd = remOp
		}
		if atB {
			B = B.Write(c12IDs[1], c12Cmd(cmd, e)).(AWORSet)
		} else {
			A = A.Write(c12IDs[0], c12Cmd(cmd, e)).(AWORSet)
		}
		// full exchange: both replicas observe everything so far
		A, B = A.Merge(B).(AWORSet), B.Merge(A).(AWORSet)
		present = !rem
		verifAssert(tla.ModuleInSymbol(e, A.Read()).AsBool() == present && tla.ModuleInSymbol(e, B.Read()).AsBool() == present,
			"AWORSet: with sequential (fully observed) updates the set reflects the last operation")
	}
	// one concurrent round: A adds while B removes, then exchange: add wins
	A2 := A.Write(c12IDs[0], c12Cmd(addOp, e)).(AWORSet)
	B2 := B.Write(c12IDs[1], c12Cmd(remOp, e)).(AWORSet)
	m1, m2 := A2.Merge(B2).(AWORSet), B2.Merge(A2).(AWORSet)
	verifAssert(tla.ModuleInSymbol(e, m1.Read()).AsBool() && tla.ModuleInSymbol(e, m2.Read()).AsBool(), "AWORSet: a concurrent add wins over a remove")
	verifReach("end")
}

// ---------------- LWWSet

func c12Time(tag string) time.Time {
	sec := verifNondetInt64(tag)
	verifAssume(sec >= 1 && sec <= 1<<40)
	return time.Unix(sec, 0)
}

func c12LWW(tag string) LWWSet {
	s := LWWSet{}.Init().(LWWSet)
	if verifChoose(tag+".hasAdd", 2) == 1 {
		s.addSet = s.addSet.Set(c12Elems[0], c12Time(tag+".add"))
	}
	if verifChoose(tag+".hasRem", 2) == 1 {
		s.remSet = s.remSet.Set(c12Elems[0], c12Time(tag+".rem"))
	}
	return s
}

func c12LWWStamp(m *immutable.Map[tla.Value, time.Time]) (time.Time, bool) {
	return m.Get(c12Elems[0])
}

func c12LWWEq(a, b LWWSet) bool {
	at, aok := c12LWWStamp(a.addSet)
	bt, bok := c12LWWStamp(b.addSet)
	ok := aok == bok && (!aok || at.Equal(bt))
	at, aok = c12LWWStamp(a.remSet)
	bt, bok = c12LWWStamp(b.remSet)
	return ok && aok == bok && (!aok || at.Equal(bt))
}

// latest add / latest remove over a list of states
func c12Latest(states []LWWSet) (add, rem time.Time, hasAdd, hasRem bool) {
	for _, s := range states {
		if t, ok := c12LWWStamp(s.addSet); ok && (!hasAdd || t.After(add)) {
			add, hasAdd = t, true
		}
		if t, ok := c12LWWStamp(s.remSet); ok && (!hasRem || t.After(rem)) {
			rem, hasRem = t, true
		}
	}
	return
}

func HarnessC12_LWWLaws() {
	a, b := c12LWW("a"), c12LWW("b")
	ab, ba := a.Merge(b).(LWWSet), b.Merge(a).(LWWSet)
	verifAssert(c12LWWEq(ab, ba), "LWWSet merge is commutative")
	verifAssert(c12LWWEq(a.Merge(a).(LWWSet), a), "LWWSet merge is idempotent")
	add, rem, hasAdd, hasRem := c12Latest([]LWWSet{a, b})
	want := hasAdd && (!hasRem || !add.Before(rem))
	verifAssert(tla.ModuleInSymbol(c12Elems[0], ab.Read()).AsBool() == want, "LWWSet reflects the latest add or remove of the element from any replica")
	verifAssert(tla.ModuleInSymbol(c12Elems[0], ba.Read()).AsBool() == want, "LWWSet reflects the latest add or remove (other merge order)")
	if verifChoose("assoc", 2) == 1 {
		c := c12LWW("c")
		verifAssert(c12LWWEq(ab.Merge(c).(LWWSet), a.Merge(b.Merge(c)).(LWWSet)), "LWWSet merge is associative")
	}
	verifReach("end")
}

// ---------------- gob transport

func HarnessC12_Gob() {
	switch verifChoose("type", 3) {
	case 0:
		a := c12Counter("a", 3)
		blob, err := a.GobEncode()
		verifAssert(err == nil, "GCounter encodes")
		var out GCounter
		verifAssert(out.GobDecode(blob) == nil, "GCounter decodes")
		verifAssert(c12CounterEq(a, out) && out.Read().Equal(a.Read()), "GCounter survives gob transport")
	case 1:
		a := c12AWORSet("a", 2, 2)
		blob, err := a.GobEncode()
		verifAssert(err == nil, "AWORSet encodes")
		var out AWORSet
		verifAssert(out.GobDecode(blob) == nil, "AWORSet decodes")
		verifAssert(c12AWEq(a, out) && out.Read().Equal(a.Read()), "AWORSet survives gob transport")
	case 2:
		a := c12LWW("a")
		blob, err := a.GobEncode()
		verifAssert(err == nil, "LWWSet encodes")
		var out LWWSet
		verifAssert(out.GobDecode(blob) == nil, "LWWSet decodes")
		verifAssert(c12LWWEq(a, out) && out.Read().Equal(a.Read()), "LWWSet survives gob transport")
	}
	verifReach("end")
}
