//go:build verif

package resources

// C01: critical sections are atomic across every resource they touch.
// A hand-built archetype (labels init -> test -> observe) performs K symbolic operations on R bound resources inside
// the REAL Run loop (Run/commit/abort, ArchetypeInterface.Read/Write); every bound resource is wrapped in a
// fault-injecting resource that may refuse any ReadValue/WriteValue/Index/PreCommit on a symbolic bit, and the body
// may hit a false await. A reference model per resource kind predicts every read and the committed state.

import (
	"os"

	"github.com/DistCompiler/pgo/distsys"
	"github.com/DistCompiler/pgo/distsys/hashmap"
	"github.com/DistCompiler/pgo/distsys/tla"
)

func init() {
	verifRegister("HarnessC01_Single", HarnessC01_Single)
	verifRegister("HarnessC01_SingleDeep", HarnessC01_SingleDeep)
	verifRegister("HarnessC01_Pairs", HarnessC01_Pairs)
	verifRegister("HarnessC01_PairsDeep", HarnessC01_PairsDeep)
	verifRegister("HarnessC01_Triple", HarnessC01_Triple)
}

// ---------------- fault injection

type c01Faults struct{ budget int }

func (f *c01Faults) hit(tag string) bool {
	if f.budget > 0 && verifNondetBool("fault."+tag) {
		f.budget--
		return true
	}
	return false
}

type c01Faulty struct {
	inner distsys.ArchetypeResource
	f     *c01Faults
	log   *[]string
	name  string
	// elements of a composite resource (IncMap, HashMap) always answer PreCommit through a channel, as a mailbox or a
	// 2PC cell would, so that the composite has several non-trivial answers to combine
	nonTrivial bool
}

func (w *c01Faulty) Abort(iface distsys.ArchetypeInterface) chan struct{} {
	*w.log = append(*w.log, "abort:"+w.name)
	return w.inner.Abort(iface)
}
func (w *c01Faulty) PreCommit(iface distsys.ArchetypeInterface) chan error {
	*w.log = append(*w.log, "precommit:"+w.name)
	if w.f.hit("precommit") {
		*w.log = append(*w.log, "precommit-refused:"+w.name)
		ch := make(chan error, 1)
		ch <- distsys.ErrCriticalSectionAborted
		return ch
	}
	ch := w.inner.PreCommit(iface)
	if ch == nil && w.nonTrivial {
		ch = make(chan error, 1)
		ch <- nil
	}
	return ch
}
func (w *c01Faulty) Commit(iface distsys.ArchetypeInterface) chan struct{} {
	*w.log = append(*w.log, "commit:"+w.name)
	return w.inner.Commit(iface)
}
func (w *c01Faulty) ReadValue(iface distsys.ArchetypeInterface) (tla.Value, error) {
	if w.f.hit("read") {
		return tla.Value{}, distsys.ErrCriticalSectionAborted
	}
	return w.inner.ReadValue(iface)
}
func (w *c01Faulty) WriteValue(iface distsys.ArchetypeInterface, v tla.Value) error {
	if w.f.hit("write") {
		return distsys.ErrCriticalSectionAborted
	}
	return w.inner.WriteValue(iface, v)
}
func (w *c01Faulty) Index(iface distsys.ArchetypeInterface, idx tla.Value) (distsys.ArchetypeResource, error) {
	if w.f.hit("index") {
		return nil, distsys.ErrCriticalSectionAborted
	}
	return w.inner.Index(iface, idx)
}
func (w *c01Faulty) Close() error { return w.inner.Close() }

// ---------------- reference models, one per resource kind

var c01Keys = []tla.Value{tla.MakeString("k1"), tla.MakeString("k2")}

type c01Model interface {
	kindName() string
	resource() distsys.ArchetypeResource
	numIdx() int // 0: leaf resource; n: indexed by c01Keys[0..n)
	readable() bool
	writable() bool
	refRead(idx int) (v tla.Value, aborts bool)
	refWrite(idx int, v tla.Value)
	refCommit()
	refAbort()
	checkCommitted(tag string) // direct observation of the real resource vs the reference committed state
}

// a plain cell: local variable, shared variable, persistent wrapper...
type c01Cell struct {
	kind      string
	res       distsys.ArchetypeResource
	committed []tla.Value
	working   []tla.Value
	nidx      int
	direct    func(idx int) (tla.Value, bool) // reads the committed value out of the real resource, if it can be observed directly
}

func (m *c01Cell) kindName() string                    { return m.kind }
func (m *c01Cell) resource() distsys.ArchetypeResource { return m.res }
func (m *c01Cell) numIdx() int                         { return m.nidx }
func (m *c01Cell) readable() bool                      { return true }
func (m *c01Cell) writable() bool                      { return true }
func (m *c01Cell) refRead(idx int) (tla.Value, bool)   { return m.working[idx], false }
func (m *c01Cell) refWrite(idx int, v tla.Value)       { m.working[idx] = v }
func (m *c01Cell) refCommit()                          { copy(m.committed, m.working) }
func (m *c01Cell) refAbort()                           { copy(m.working, m.committed) }
func (m *c01Cell) checkCommitted(tag string) {
	if m.direct == nil {
		return
	}
	for i := range m.committed {
		if v, ok := m.direct(i); ok {
			verifAssert(v.Equal(m.committed[i]), m.kind+": stored state equals the last committed state ("+tag+")")
		}
	}
}

func c01Ints(tag string, n int) []tla.Value {
	var out []tla.Value
	for i := 0; i < n; i++ {
		out = append(out, tla.MakeNumber(verifNondetInt32(tag)))
	}
	return out
}

func c01NewCell(kind string, faults *c01Faults, log *[]string) c01Model {
	elem := func(name string, r distsys.ArchetypeResource) distsys.ArchetypeResource {
		return &c01Faulty{inner: r, f: faults, log: log, name: name, nonTrivial: true}
	}
	switch kind {
	case "local":
		init := c01Ints("init", 1)
		r := distsys.NewLocalArchetypeResource(init[0])
		return &c01Cell{kind: kind, res: r, committed: init, working: append([]tla.Value{}, init...),
			direct: func(int) (tla.Value, bool) { return distsys.VerifLocalValue(r), true }}
	case "indexedlocal":
		init := c01Ints("init", 2)
		fn := tla.MakeRecord([]tla.RecordField{{Key: c01Keys[0], Value: init[0]}, {Key: c01Keys[1], Value: init[1]}})
		r := distsys.NewLocalArchetypeResource(fn)
		return &c01Cell{kind: kind, res: r, committed: init, working: append([]tla.Value{}, init...), nidx: 2,
			direct: func(i int) (tla.Value, bool) { return distsys.VerifLocalValue(r).ApplyFunction(c01Keys[i]), true }}
	case "incmap":
		init := c01Ints("init", 2)
		subs := map[string]*distsys.LocalArchetypeResource{}
		r := NewIncMap(func(index tla.Value) distsys.ArchetypeResource {
			i := 0
			if index.Equal(c01Keys[1]) {
				i = 1
			}
			s := distsys.NewLocalArchetypeResource(init[i])
			subs[index.AsString()] = s
			return elem("incmap.elem"+index.AsString(), s)
		})
		return &c01Cell{kind: kind, res: r, committed: init, working: append([]tla.Value{}, init...), nidx: 2,
			direct: func(i int) (tla.Value, bool) {
				s, ok := subs[c01Keys[i].AsString()]
				if !ok {
					return tla.Value{}, false
				}
				return distsys.VerifLocalValue(s), true
			}}
	case "hashmap":
		init := c01Ints("init", 2)
		hm := hashmap.New[distsys.ArchetypeResource]()
		s0, s1 := distsys.NewLocalArchetypeResource(init[0]), distsys.NewLocalArchetypeResource(init[1])
		hm.Set(c01Keys[0], elem("hashmap.elem0", s0))
		hm.Set(c01Keys[1], elem("hashmap.elem1", s1))
		r := NewHashMap(hm)
		subs := []*distsys.LocalArchetypeResource{s0, s1}
		return &c01Cell{kind: kind, res: r, committed: init, working: append([]tla.Value{}, init...), nidx: 2,
			direct: func(i int) (tla.Value, bool) { return distsys.VerifLocalValue(subs[i]), true }}
	case "shared":
		init := c01Ints("init", 1)
		mgr := NewLocalSharedManager(init[0])
		r := mgr.MakeLocalShared()
		return &c01Cell{kind: kind, res: r, committed: init, working: append([]tla.Value{}, init...),
			direct: func(int) (tla.Value, bool) {
				verifAssert(len(mgr.lockCh) == 0, "shared variable: lock is released outside critical sections")
				return distsys.VerifLocalValue(mgr.res), true
			}}
	case "sharedindexed":
		init := c01Ints("init", 2)
		fn := tla.MakeRecord([]tla.RecordField{{Key: c01Keys[0], Value: init[0]}, {Key: c01Keys[1], Value: init[1]}})
		mgr := NewLocalSharedManager(fn)
		r := mgr.MakeLocalShared()
		return &c01Cell{kind: kind, res: r, committed: init, working: append([]tla.Value{}, init...), nidx: 2,
			direct: func(i int) (tla.Value, bool) {
				verifAssert(len(mgr.lockCh) == 0, "shared variable: lock is released outside critical sections")
				return distsys.VerifLocalValue(mgr.res).ApplyFunction(c01Keys[i]), true
			}}
	}
	panic("unknown cell kind " + kind)
}

// input channel preloaded with messages
type c01Input struct {
	res       *InputChan
	msgs      []tla.Value
	committed int // messages consumed by committed sections
	working   int
}

func c01NewInput() *c01Input {
	msgs := c01Ints("msg", 3)
	ch := make(chan tla.Value, 4)
	for _, m := range msgs {
		ch <- m
	}
	return &c01Input{res: NewInputChan(ch), msgs: msgs}
}
func (m *c01Input) kindName() string                    { return "inputchan" }
func (m *c01Input) resource() distsys.ArchetypeResource { return m.res }
func (m *c01Input) numIdx() int                         { return 0 }
func (m *c01Input) readable() bool                      { return true }
func (m *c01Input) writable() bool                      { return false }
func (m *c01Input) refRead(int) (tla.Value, bool) {
	if m.working >= len(m.msgs) {
		return tla.Value{}, true // nothing pending: the read times out and aborts the section
	}
	v := m.msgs[m.working]
	m.working++
	return v, false
}
func (m *c01Input) refWrite(int, tla.Value) {}
func (m *c01Input) refCommit()              { m.committed = m.working }
func (m *c01Input) refAbort()               { m.working = m.committed }
func (m *c01Input) checkCommitted(tag string) {
	// what a future section can still obtain: buffer ++ channel contents, in order
	pending := len(m.res.buffer) + len(m.res.channel)
	verifAssert(len(m.res.backlogBuffer) == 0, "inputchan: no read is in flight outside a critical section ("+tag+")")
	verifAssert(pending == len(m.msgs)-m.committed, "inputchan: exactly the inputs not consumed by committed sections are still offered ("+tag+")")
	for i, v := range m.res.buffer {
		verifAssert(v.Equal(m.msgs[m.committed+i]), "inputchan: inputs consumed by an aborted attempt are offered again in the same order ("+tag+")")
	}
}

// output channel
type c01Output struct {
	res       *OutputChan
	ch        chan tla.Value
	committed []tla.Value
	working   []tla.Value
	seen      int
}

func c01NewOutput() *c01Output {
	ch := make(chan tla.Value, 16)
	return &c01Output{res: NewOutputChan(ch), ch: ch}
}
func (m *c01Output) kindName() string                    { return "outputchan" }
func (m *c01Output) resource() distsys.ArchetypeResource { return m.res }
func (m *c01Output) numIdx() int                         { return 0 }
func (m *c01Output) readable() bool                      { return false }
func (m *c01Output) writable() bool                      { return true }
func (m *c01Output) refRead(int) (tla.Value, bool)       { return tla.Value{}, false }
func (m *c01Output) refWrite(_ int, v tla.Value)         { m.working = append(m.working, v) }
func (m *c01Output) refCommit()                          { m.committed = append(m.committed, m.working...); m.working = nil }
func (m *c01Output) refAbort()                           { m.working = nil }
func (m *c01Output) checkCommitted(tag string) {
	verifAssert(len(m.ch) == len(m.committed)-m.seen, "outputchan: exactly the sends of committed sections were delivered ("+tag+")")
	for len(m.ch) > 0 && m.seen < len(m.committed) {
		v := <-m.ch
		verifAssert(v.Equal(m.committed[m.seen]), "outputchan: sends are delivered once, in order ("+tag+")")
		m.seen++
	}
}

// file resource (strings)
type c01File struct {
	res       *FileSystem
	dir       string
	committed []string
	working   []string
}

var c01Strs = []string{"s0", "s1", "s2"}

func c01NewFile() *c01File {
	dir, err := os.MkdirTemp("", "verifc01")
	if err != nil {
		panic(err)
	}
	m := &c01File{dir: dir, res: NewFileSystem(dir)}
	for i := range c01Keys {
		s := c01Strs[verifChoose("finit", 3)]
		if err := os.WriteFile(dir+"/"+c01Keys[i].AsString(), []byte(s), 0o600); err != nil {
			panic(err)
		}
		m.committed = append(m.committed, s)
		m.working = append(m.working, s)
	}
	return m
}
func (m *c01File) kindName() string                    { return "file" }
func (m *c01File) resource() distsys.ArchetypeResource { return m.res }
func (m *c01File) numIdx() int                         { return 2 }
func (m *c01File) readable() bool                      { return true }
func (m *c01File) writable() bool                      { return true }
func (m *c01File) refRead(i int) (tla.Value, bool)     { return tla.MakeString(m.working[i]), false }
func (m *c01File) refWrite(i int, v tla.Value)         { m.working[i] = v.AsString() }
func (m *c01File) refCommit()                          { copy(m.committed, m.working) }
func (m *c01File) refAbort()                           { copy(m.working, m.committed) }
func (m *c01File) checkCommitted(tag string) {
	for i := range c01Keys {
		b, err := os.ReadFile(m.dir + "/" + c01Keys[i].AsString())
		verifAssert(err == nil && string(b) == m.committed[i], "file: contents equal the last committed write ("+tag+")")
	}
}

func c01New(kind string, faults *c01Faults, log *[]string) c01Model {
	switch kind {
	case "inputchan":
		return c01NewInput()
	case "outputchan":
		return c01NewOutput()
	case "file":
		return c01NewFile()
	}
	return c01NewCell(kind, faults, log)
}

// ---------------- the archetype

func c01Value(m c01Model, tag string) tla.Value {
	if m.kindName() == "file" {
		return tla.MakeString(c01Strs[verifChoose(tag, 3)])
	}
	return tla.MakeNumber(verifNondetInt32(tag))
}

func c01Run(kinds []string, K int, faultBudget int) {
	var models []c01Model
	var log []string
	faults := &c01Faults{budget: faultBudget}
	var cfg []distsys.MPCalContextConfigFn
	var refParams []string
	names := []string{"r0", "r1", "r2"}
	for i, k := range kinds {
		m := c01New(k, faults, &log)
		models = append(models, m)
		cfg = append(cfg, distsys.EnsureArchetypeRefParam(names[i], &c01Faulty{inner: m.resource(), f: faults, log: &log, name: names[i]}))
		refParams = append(refParams, "A."+names[i])
	}
	attempts := 0
	observed := false
	handle := func(iface distsys.ArchetypeInterface, i int) (distsys.ArchetypeResourceHandle, error) {
		return iface.RequireArchetypeResourceRef("A." + names[i])
	}
	// the section's program: chosen once (a label body is deterministic code, every attempt performs the same operations)
	type c01Op struct {
		r, idx int
		write  bool
		val    tla.Value
	}
	var prog []c01Op
	for op := 0; op < K; op++ {
		o := c01Op{r: verifChoose("op.res", len(models))}
		m := models[o.r]
		if m.numIdx() > 0 {
			o.idx = verifChoose("op.idx", m.numIdx())
		}
		o.write = m.writable() && (!m.readable() || verifChoose("op.write", 2) == 1)
		if o.write {
			o.val = c01Value(m, "op.val")
		}
		prog = append(prog, o)
	}
	sections := []distsys.MPCalCriticalSection{
		{Name: "A.test", Body: func(iface distsys.ArchetypeInterface) error {
			attempts++
			log = append(log, "attempt")
			verifAssert(attempts <= faultBudget+1, "an attempt is only retried after an abort")
			if attempts > 1 {
				// the previous attempt failed: nothing of it may be observable now
				for _, m := range models {
					m.refAbort()
					m.checkCommitted("after abort")
				}
			}
			for _, o := range prog {
				r, idx := o.r, o.idx
				m := models[r]
				h, err := handle(iface, r)
				if err != nil {
					return err
				}
				var indices []tla.Value
				if m.numIdx() > 0 {
					indices = []tla.Value{c01Keys[idx]}
				}
				if o.write {
					if err := iface.Write(h, indices, o.val); err != nil {
						return err
					}
					m.refWrite(idx, o.val)
				} else {
					want, aborts := m.refRead(idx)
					got, err := iface.Read(h, indices)
					if aborts {
						verifAssert(err == distsys.ErrCriticalSectionAborted, m.kindName()+": a read with nothing pending aborts the section")
					}
					if err != nil {
						return err
					}
					verifAssert(got.Equal(want), m.kindName()+": a read inside a section sees the section's own writes over the last committed state")
				}
				if faults.hit("await") {
					return distsys.ErrCriticalSectionAborted // a false await
				}
			}
			log = append(log, "body-done")
			return iface.Goto("A.observe")
		}},
		{Name: "A.observe", Body: func(iface distsys.ArchetypeInterface) error {
			faults.budget = 0 // faults are only injected into the section under test
			// the test section committed: all its effects are visible, on every resource
			// PreCommit was asked of every touched resource before any Commit, and Commit only after all accepted
			// within one attempt: PreCommit of every touched resource precedes any Commit, and no Commit follows a refusal
			sawCommit, refused := false, false
			for _, e := range log {
				switch {
				case e == "attempt":
					sawCommit, refused = false, false
				case len(e) > 18 && e[:18] == "precommit-refused:":
					refused = true
				case len(e) > 10 && e[:10] == "precommit:":
					if sawCommit {
						verifFail("PreCommit after Commit within one attempt")
					}
				case len(e) > 7 && e[:7] == "commit:":
					sawCommit = true
					if refused {
						verifFail("Commit although a PreCommit was refused")
					}
				}
			}
			log = nil
			for _, m := range models {
				m.refCommit()
				m.checkCommitted("after commit")
			}
			// a following read-only section reads the committed values
			for r, m := range models {
				if !m.readable() || m.kindName() == "inputchan" {
					continue
				}
				h, err := handle(iface, r)
				if err != nil {
					return err
				}
				n := m.numIdx()
				if n == 0 {
					n = 1
				}
				for idx := 0; idx < n; idx++ {
					var indices []tla.Value
					if m.numIdx() > 0 {
						indices = []tla.Value{c01Keys[idx]}
					}
					want, _ := m.refRead(idx)
					got, err := iface.Read(h, indices)
					if err != nil {
						return err
					}
					verifAssert(got.Equal(want), m.kindName()+": the next section reads the committed value")
				}
			}
			observed = true
			verifReach("observe")
			return iface.Goto("A.Done")
		}},
		{Name: "A.Done", Body: func(distsys.ArchetypeInterface) error { return distsys.ErrDone }},
	}
	arch := distsys.MPCalArchetype{Name: "A", Label: "A.test", RequiredRefParams: refParams,
		JumpTable: distsys.MakeMPCalJumpTable(sections...), ProcTable: distsys.MakeMPCalProcTable(), PreAmble: func(distsys.ArchetypeInterface) {}}
	ctx := distsys.NewMPCalContext(tla.MakeNumber(1), arch, cfg...)
	err := ctx.Run()
	// an exhausted input channel makes the section abort forever; the run loop is then stopped by the step budget,
	// so reaching this point means the archetype finished
	verifAssert(err == nil, "run terminates normally")
	verifAssert(observed, "the observing section ran")
	verifAssert(distsys.VerifDirtyCount(ctx) == 0, "no resource is left marked dirty after the run")
	for _, m := range models {
		if f, ok := m.(*c01File); ok {
			os.RemoveAll(f.dir)
		}
	}
	verifReach("end")
}

var c01Kinds = []string{"local", "indexedlocal", "incmap", "hashmap", "shared", "inputchan", "outputchan", "file", "sharedindexed"}

// every resource kind alone: K = 3 operations, one fault
func HarnessC01_Single() {
	k := c01Kinds[verifChoose("kind", len(c01Kinds))]
	budget := 1
	if k == "inputchan" || k == "outputchan" {
		budget = 2 // re-delivery order only shows after two aborts; these programs are small
	}
	c01Run([]string{k}, 3, budget)
}

// the same with up to 2 faults (thorough tier)
func HarnessC01_SingleDeep() {
	k := c01Kinds[verifChoose("kind", len(c01Kinds))]
	c01Run([]string{k}, 3, 2)
}

var c01PairList = [][2]string{
	{"local", "outputchan"}, {"inputchan", "outputchan"}, {"incmap", "inputchan"}, {"hashmap", "shared"},
	{"indexedlocal", "file"}, {"shared", "outputchan"}, {"local", "incmap"}, {"file", "inputchan"},
}

// mixed pairs: K = 3 operations over two resources, one fault, both iteration orders of the dirty set
func HarnessC01_Pairs() {
	p := c01PairList[verifChoose("pair", len(c01PairList))]
	c01Run([]string{p[0], p[1]}, 2, 1)
}

// thorough tier: K = 3
func HarnessC01_PairsDeep() {
	p := c01PairList[verifChoose("pair", len(c01PairList))]
	c01Run([]string{p[0], p[1]}, 3, 1)
}

var c01TripleList = [][3]string{
	{"local", "inputchan", "outputchan"}, {"incmap", "shared", "outputchan"}, {"hashmap", "file", "inputchan"},
}

func HarnessC01_Triple() {
	t := c01TripleList[verifChoose("triple", len(c01TripleList))]
	c01Run([]string{t[0], t[1], t[2]}, 3, 1)
}
