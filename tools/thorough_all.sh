#!/bin/bash
# runs the thorough tier of every claimed property in turn (hours); prints one summary block per property.
# usage: tools/thorough_all.sh [ids...]   (VERIF_REPO / VERIF_WORKERS are honoured by ./check)
cd "$(dirname "$0")/.."
ids="$@"
[ -z "$ids" ] && ids=$(python3 -c "import json;print(' '.join(c['property_id'] for c in json.load(open('MANIFEST.json'))['checks']))")
for p in $ids; do
  echo "=== $p start $(date -u +%H:%M:%S)"
  out=$(mktemp)
  ./check $p --tier thorough >$out 2>/dev/null; rc=$?
  grep -v "^loaded" $out | tail -25 | cut -c1-400; rm -f $out
  echo "=== $p exit=$rc $(date -u +%H:%M:%S)"
done
