#!/usr/bin/env python3
"""tla2go.py <Spec.tla> <package> <out.go>

Exports the fully resolved AST of a TLA+ module with SANY (tla2sany.xml.XMLExporter) and writes it as Go literals
(constructors of harness/specsim's AST) for every operator definition of the root module. Parsing and name
resolution are SANY's; this script only changes the representation.
"""
import os, subprocess, sys, tempfile, shutil
import xml.etree.ElementTree as ET

STD = {"Naturals", "Integers", "Sequences", "FiniteSets", "TLC", "Bags", "Reals", "TLCExt", "SequencesExt", "FiniteSetsExt", "Functions"}


def export_xml(tla_path, workdir):
    base = os.path.basename(tla_path)
    shutil.copy(tla_path, os.path.join(workdir, base))
    # modules in the same directory may be EXTENDed
    srcdir = os.path.dirname(os.path.abspath(tla_path))
    for f in os.listdir(srcdir):
        if f.endswith(".tla") and f != base:
            shutil.copy(os.path.join(srcdir, f), os.path.join(workdir, f))
    out = os.path.join(workdir, "spec.xml")
    with open(out, "w") as fo:
        r = subprocess.run(["java", "-Xmx6g", "-Djava.io.tmpdir=" + workdir, "-cp", "/opt/veriftools/tla/tla2tools.jar", "tla2sany.xml.XMLExporter", "-o", "-I", "/opt/veriftools/tla", base],
                           cwd=workdir, stdout=fo, stderr=subprocess.PIPE, text=True)
    if r.returncode != 0 or os.path.getsize(out) < 100:
        sys.stderr.write(r.stderr[-2000:])
        raise SystemExit("SANY export failed for " + tla_path)
    return out


def gostr(s):
    return '"' + s.replace("\\", "\\\\").replace('"', '\\"').replace("\n", "\\n") + '"'


class Conv:
    def __init__(self, xml_path, root_module):
        self.root_module = root_module
        self.ents = {}
        self.kind = {}
        ctx = None
        # iterparse keeps memory manageable for the 200 MB raftkvs export
        for ev, el in ET.iterparse(xml_path, events=("end",)):
            if el.tag == "entry":
                uid = el.find("UID").text
                node = [c for c in el if c.tag != "UID"][0]
                self.ents[uid] = node
            elif el.tag == "context":
                break
        self.modname = {}
        for uid, n in self.ents.items():
            if n.tag == "ModuleNode":
                self.modname[uid] = n.find("uniquename").text
        self.out = []
        self.letdefs = {}
        self.helpers = []

    def loc_file(self, n):
        loc = n.find("location")
        if loc is None:
            return ""
        f = loc.find("filename")
        return f.text if f is not None else ""

    def pname(self, uid):
        n = self.ents[uid]
        return n.find("uniquename").text + "#" + uid

    def conv_ref(self, ref, operands, node):
        """operator reference + operand list -> Go expression"""
        uid = ref.find("UID").text
        tag = ref.tag
        args = [self.conv(o) for o in operands]
        if tag == "BuiltInKindRef":
            name = self.ents[uid].find("uniquename").text
            bounds = self.bounds(node)
            if bounds is None and name in ("$IfThenElse", "$ConjList", "$DisjList", "\\land", "\\lor"):
                # big operands of the connectives are built when first evaluated
                args = [self.lazy(a) for a in args]
            if bounds is not None:
                return "Q(%s, []snBound{%s}, %s)" % (gostr(name), ", ".join(bounds), ", ".join(args))
            return "B(%s%s)" % (gostr(name), "".join(", " + a for a in args))
        if tag == "FormalParamNodeRef":
            if args:
                return "PA(%s%s)" % (gostr(self.pname(uid)), "".join(", " + a for a in args))
            return "P(%s)" % gostr(self.pname(uid))
        if tag == "OpDeclNodeRef":
            name = self.ents[uid].find("uniquename").text
            if args:
                return "CA(%s%s)" % (gostr(name), "".join(", " + a for a in args))
            return "V(%s)" % gostr(name)
        if tag == "UserDefinedOpKindRef":
            d = self.ents[uid]
            name = d.find("uniquename").text
            f = self.loc_file(d)
            if f in STD:
                return "L(%s%s)" % (gostr(f + "!" + name), "".join(", " + a for a in args))
            if uid in self.letdefs:
                return "U(%s%s)" % (gostr(name + "#" + uid), "".join(", " + a for a in args))
            return "U(%s%s)" % (gostr(name), "".join(", " + a for a in args))
        raise SystemExit("unknown operator ref " + tag)

    def bounds(self, node):
        bs = node.find("boundSymbols")
        if bs is None:
            return None
        out = []
        for b in bs:
            if b.tag == "bound":
                names = [self.pname(r.find("UID").text) for r in b.findall("FormalParamNodeRef")]
                tup = b.find("tuple") is not None
                setexpr = [c for c in b if c.tag not in ("FormalParamNodeRef", "tuple")][0]
                out.append("{names: []string{%s}, tuple: %s, set: %s}" % (", ".join(gostr(n) for n in names), "true" if tup else "false", self.conv(setexpr)))
            elif b.tag == "unbound":
                names = [self.pname(r.find("UID").text) for r in b.findall("FormalParamNodeRef")]
                out.append("{names: []string{%s}}" % ", ".join(gostr(n) for n in names))
        return out

    def lazy(self, a):
        if a.startswith("snH") and a.endswith("()") and a[3:-2].isdigit():
            return "LZ(%s)" % a[:-2]
        return a

    def conv(self, n):
        r = self.conv0(n)
        if len(r) > 1200:
            self.nhelp = getattr(self, 'nhelp', 0) + 1
            name = 'snH%d' % self.nhelp
            self.helpers.append('func %s() *sn { return %s }' % (name, r))
            return name + '()'
        return r

    def conv0(self, n):
        t = n.tag
        if t == "OpApplNode":
            op = n.find("operator")[0]
            operands = list(n.find("operands"))
            return self.conv_ref(op, operands, n)
        if t == "NumeralNode":
            return "N(%s)" % n.find("IntValue").text
        if t == "StringNode":
            return "S(%s)" % gostr(n.find("StringValue").text or "")
        if t == "LetInNode":
            defs = []
            for r in n.find("opDefs"):
                if r.tag != "UserDefinedOpKindRef":
                    continue
                uid = r.find("UID").text
                self.letdefs[uid] = True
            for r in n.find("opDefs"):
                if r.tag != "UserDefinedOpKindRef":
                    continue
                uid = r.find("UID").text
                defs.append(self.conv_def(uid, local=True))
            return "LET([]*snDef{%s}, %s)" % (", ".join(defs), self.conv(n.find("body")[0]))
        if t == "AtNode":
            return "AT()"
        if t == "DecimalNode":
            raise SystemExit("decimal literals are not supported")
        if t in ("UserDefinedOpKindRef", "FormalParamNodeRef", "OpDeclNodeRef", "BuiltInKindRef"):
            # operator used as an argument (higher order) - only nullary use is supported
            class Fake:  # minimal stand-in for an OpApplNode without operands / bounds
                def find(self, _):
                    return None
            return self.conv_ref(n, [], Fake())
        if t == "OpArgNode":
            return self.conv(n.find("argument")[0])
        if t == "LabelNode":
            return self.conv(n.find("body")[0])
        if t == "SubstInNode":
            return self.conv(n.find("body")[0])
        raise SystemExit("unsupported node " + t)

    def conv_def(self, uid, local=False):
        d = self.ents[uid]
        name = d.find("uniquename").text
        params = []
        ps = d.find("params")
        if ps is not None:
            for lp in ps:
                r = lp.find("FormalParamNodeRef")
                params.append(self.pname(r.find("UID").text))
        body = d.find("body")
        if body is None or len(body) == 0:
            return None
        key = name + "#" + uid if local else name
        return "{name: %s, params: []string{%s}, body: %s}" % (gostr(key), ", ".join(gostr(p) for p in params), self.lazy(self.conv(body[0])))

    def run(self, pkg):
        lines = ["//go:build verif", "", "package " + pkg, "",
                 "// Generated by /verif/tools/tla2go.py from SANY's XML export of module %s. DO NOT EDIT." % self.root_module, "",
                 "func init() {"]
        vars_, consts = [], []
        for uid, n in self.ents.items():
            if n.tag == "OpDeclNode" and self.loc_file(n) == self.root_module:
                kind = n.find("kind").text if n.find("kind") is not None else ""
                nm = n.find("uniquename").text
                # kind 2 = constant, 3 = variable
                (vars_ if kind == "3" else consts).append(nm)
        lines.append("\tspecVariables = []string{%s}" % ", ".join(gostr(v) for v in vars_))
        lines.append("\tspecConstants = []string{%s}" % ", ".join(gostr(v) for v in consts))
        lines.append("}")
        lines.append("")
        n = 0
        for uid, d in self.ents.items():
            if d.tag != "UserDefinedOpKind" or self.loc_file(d) != self.root_module:
                continue
            # let-bound definitions are emitted inline
            lvl = d.find("level")
            body = d.find("body")
            if body is None or len(body) == 0:
                continue
            # skip temporal definitions (Spec, liveness): level 3
            if lvl is not None and lvl.text == "3":
                continue
            if uid in self.letdefs:
                continue
            try:
                self.letdefs_snapshot = dict(self.letdefs)
                g = self.conv_def(uid)
            except SystemExit as e:
                lines.append("// skipped %s: %s" % (d.find("uniquename").text, e))
                continue
            if g is None:
                continue
            # definitions that turned out to be LET-local are filtered at the end
            lines.append("func init() { specDefineLazy(%s, func() *snDef { return &snDef%s }) } // uid %s" % (gostr(d.find("uniquename").text), g, uid))
            n += 1
        # drop top-level emissions of let-local definitions
        final = []
        for ln in lines:
            if ln.startswith("func init() { specDefineLazy(") and ln.rsplit("uid ", 1)[1] in self.letdefs:
                continue
            final.append(ln)
        return "\n".join(final) + "\n\n" + "\n".join(self.helpers) + "\n"


def main():
    tla, pkg, out = sys.argv[1], sys.argv[2], sys.argv[3]
    root = os.path.basename(tla)[:-4]
    wd = tempfile.mkdtemp(prefix="tla2go_")
    try:
        xml = export_xml(tla, wd)
        c = Conv(xml, root)
        open(out, "w").write(c.run(pkg))
    finally:
        shutil.rmtree(wd, ignore_errors=True)


if __name__ == "__main__":
    main()
