#!/bin/bash
# re-runs every claimed quick check on the current tree so that committed evidence describes the unchanged tree
cd /verif
for p in $(python3 -c "import json;print(' '.join(c['property_id'] for c in json.load(open('MANIFEST.json'))['checks']))"); do
  ./check $p 2>/dev/null | tail -1
done
