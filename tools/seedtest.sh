#!/bin/bash
# usage: seedtest.sh <seedname> <property> <worktree> <demo file> <demo dest rel path> <module dir rel> <go test args...>
# 1. confirms in the scratch worktree that the demonstration fails with the patch and passes without it
# 2. stores the seed under /verif/seeded/<seedname>
# 3. applies the patch to /repo, runs ./check <property> (quick), restores /repo
set -u
name=$1; prop=$2; wt=$3; demo=$4; dest=$5; mod=$6; shift 6
export GOTOOLCHAIN=local GOFLAGS= GOPROXY=off PATH=/verif/bin/gopath:$PATH
seed=$wt/_seed
cd $wt && git checkout -q -- . && cp $seed/$demo $wt/$dest
echo "== demo WITHOUT patch"; (cd $wt/$mod && timeout 600 go test -vet=off -count=1 "$@" 2>&1 | tail -3); without=${PIPESTATUS[0]}
git -C $wt apply $seed/patch.diff || { echo "patch does not apply"; exit 2; }
echo "== demo WITH patch"; (cd $wt/$mod && timeout 600 go test -vet=off -count=1 "$@" 2>&1 | tail -5)
git -C $wt checkout -q -- . ; rm -f $wt/$dest
mkdir -p /verif/seeded/$name && cp $seed/patch.diff $seed/meta.json $seed/$demo $seed/demo_path.txt /verif/seeded/$name/ 2>/dev/null
echo "== check $prop with patch applied to /repo"
git -C /repo apply $seed/patch.diff || { echo "patch does not apply to /repo"; exit 2; }
# evidence written while a seeded change is applied must not replace the evidence of the unchanged tree
# (only this property's files are saved and restored: other checks may be running)
bak=$(mktemp -d); mkdir -p $bak/replay; cp -a /verif/evidence/$prop.json $bak/ 2>/dev/null; cp -a /verif/evidence/replay/$prop-* $bak/replay/ 2>/dev/null
(cd /verif && timeout 1800 ./check $prop ${CHECK_ARGS:-} 2>/dev/null | grep -v "^loaded\|^Harness" | tail -6)
rm -f /verif/evidence/$prop.json /verif/evidence/replay/$prop-*; cp -a $bak/$prop.json /verif/evidence/ 2>/dev/null; cp -a $bak/replay/. /verif/evidence/replay/ 2>/dev/null; rm -rf $bak
git -C /repo checkout -q -- . ; git -C /repo status --short | head -3
