package main

// Goroutines of the target program are coroutines: real Go goroutines of which exactly one runs at a time.
// Scheduling decisions are taken at synchronisation points and recorded in the path's decision vector.

import (
	"fmt"
	"sync"

	"golang.org/x/tools/go/ssa"
)

type ChanObj struct {
	buf    []Value
	cap    int
	closed bool
	timer  *Timer
	id     int
}

type Timer struct {
	ch       *ChanObj
	periodic bool
	stopped  bool
	fired    int
	id       int
	label    string
}

type selCase struct {
	ch   *ChanObj
	send bool
	val  Value
}

type Thread struct {
	id      int
	s       *Sched
	resume  chan struct{}
	done    bool
	ready   func() bool // nil when running / runnable unconditionally
	daemon  bool
	stalled bool
	// rendezvous registration while blocked
	waitCases []selCase
	handoff   *handoff
	name      string
	depth     int
	yielding  bool
	waitSeq   int
}

type handoff struct {
	caseIdx int
	val     Value
	ok      bool
}

type Sched struct {
	p           *Path
	threads     []*Thread
	cur         *Thread
	finished    chan string
	killed      bool
	wg          sync.WaitGroup
	points      int
	switches    int
	preempts    int
	timers      []*Timer
	nchan       int
	endOnce     sync.Once
	mutexes     map[*Value]*mutexState
	wgs         map[*Value]*int
	waitCounter int
}

type mutexState struct {
	locked  bool
	readers int
}

type killThread struct{}

func newSched(p *Path) *Sched {
	return &Sched{p: p, finished: make(chan string, 1), mutexes: map[*Value]*mutexState{}, wgs: map[*Value]*int{}}
}

func (s *Sched) finish(reason string) {
	s.endOnce.Do(func() { s.finished <- reason })
}

// runMain runs entry as the main thread and returns the reason the path ended.
func (s *Sched) runMain(entry *ssa.Function) string {
	main := s.newThread("main")
	s.cur = main
	s.wg.Add(1)
	go func() {
		defer s.wg.Done()
		<-main.resume
		reason := s.p.runThreadBody(main, func() { s.p.callFunction(main, nil, entry, nil) })
		main.done = true
		if reason == "" {
			reason = "ok"
		}
		s.finish(reason)
	}()
	main.resume <- struct{}{}
	reason := <-s.finished
	// kill parked goroutines
	s.killed = true
	for _, t := range s.threads {
		close(t.resume)
	}
	s.wg.Wait()
	return reason
}

func (s *Sched) newThread(name string) *Thread {
	t := &Thread{id: len(s.threads), s: s, resume: make(chan struct{}, 1), name: name}
	s.threads = append(s.threads, t)
	return t
}

// spawn starts a new target goroutine running body; the new thread is runnable but does not run until scheduled.
func (s *Sched) spawn(name string, body func(th *Thread)) *Thread {
	t := s.newThread(name)
	s.wg.Add(1)
	go func() {
		defer s.wg.Done()
		if _, ok := <-t.resume; !ok || s.killed {
			return
		}
		reason := s.p.runThreadBody(t, func() { body(t) })
		if reason != "" {
			s.finish(reason)
			return
		}
		s.exit(t)
	}()
	return t
}

// park blocks the calling goroutine until resumed; panics killThread if the path was ended.
func (s *Sched) park(th *Thread) {
	_, ok := <-th.resume
	if !ok || s.killed {
		panic(killThread{})
	}
}

func (s *Sched) enabled(cur *Thread) []*Thread {
	var out []*Thread
	curOK := cur != nil && !cur.done && (cur.ready == nil || cur.ready())
	if curOK && !cur.yielding {
		out = append(out, cur)
	}
	// round-robin order starting after cur
	n := len(s.threads)
	start := 0
	if cur != nil {
		start = cur.id + 1
	}
	for k := 0; k < n; k++ {
		t := s.threads[(start+k)%n]
		if t == cur || t.done {
			continue
		}
		if t.ready == nil || t.ready() {
			out = append(out, t)
		}
	}
	if curOK && cur.yielding {
		out = append(out, cur) // at an explicit yield the default is to let the others run first
	}
	return out
}

func (s *Sched) liveTimers() []*Timer {
	var out []*Timer
	for _, t := range s.timers {
		if t.stopped || (!t.periodic && t.fired > 0) {
			continue
		}
		if len(t.ch.buf) >= t.ch.cap {
			continue
		}
		// firing is only observable if some thread is waiting on the timer's channel
		waited := false
		for _, th := range s.threads {
			if th.done || th.handoff != nil {
				continue
			}
			for _, c := range th.waitCases {
				if c.ch == t.ch && !c.send {
					waited = true
				}
			}
		}
		if !waited {
			continue
		}
		out = append(out, t)
	}
	return out
}

func (s *Sched) fire(t *Timer) {
	t.fired++
	t.ch.buf = append(t.ch.buf, s.p.timeValue())
	s.p.schedule = append(s.p.schedule, -(t.id + 1))
}

// pick chooses the next thread to run. cur is the thread at the scheduling point (may be done).
func (s *Sched) pick(cur *Thread) *Thread {
	p := s.p
	for {
		en := s.enabled(cur)
		policy := p.e.cfg.TimerPolicy
		var timers []*Timer
		if policy == "any" || (policy != "never" && len(en) == 0) {
			timers = s.liveTimers()
		}
		if len(en) == 0 && len(timers) > 0 && !(p.e.cfg.Preempt >= 0 && s.preempts >= p.e.cfg.Preempt) {
			// nothing else can run: firing a timer is forced, choosing which one is free
		}
		if len(en) == 0 && len(timers) > 1 && p.e.cfg.Preempt >= 0 && s.preempts >= p.e.cfg.Preempt {
			timers = timers[:1]
		}
		if len(en) == 0 && len(timers) == 0 {
			return nil
		}
		curEnabled := false
		for _, t := range en {
			if t == cur {
				curEnabled = true
			}
		}
		n := len(en) + len(timers)
		// Delay-bounded scheduling: the default schedule keeps the current thread running, otherwise takes the
		// first enabled thread (lowest id); each deviation from it (a "delay") is a recorded nondeterministic
		// choice, and at most cfg.Preempt deviations are explored per path (-1 = unbounded).
		var c int
		if p.e.cfg.Preempt >= 0 && s.preempts >= p.e.cfg.Preempt {
			c = 0
		} else {
			s.points++
			cat := "sched"
			if p.e.verbose {
				cat = "sched:"
				for _, t := range en {
					cat += t.name + ","
				}
				cat += fmt.Sprintf("timers=%d,cur=%v", len(timers), curEnabled)
			}
			c = p.chooseNCat(n, cat)
			if c > 0 {
				s.preempts++
			}
		}
		if c >= len(en) {
			t := timers[c-len(en)]
			s.fire(t)
			continue
		}
		next := en[c]
		p.schedule = append(p.schedule, next.id)
		return next
	}
}

// syncPoint is called by the running thread th before a blocking/acquire operation.
// It returns when th has been chosen to run and ready() holds.
func (s *Sched) syncPoint(th *Thread, ready func() bool) {
	th.ready = ready
	next := s.pick(th)
	if next == nil {
		s.deadlock()
	}
	if next != th {
		s.switches++
		s.cur = next
		next.resume <- struct{}{}
		s.park(th)
		s.cur = th
	}
	th.ready = nil
}

func (s *Sched) deadlock() {
	p := s.p
	blocked := ""
	nonDaemon := false
	for _, t := range s.threads {
		if !t.done {
			blocked += fmt.Sprintf(" %s#%d", t.name, t.id)
			if !t.daemon {
				nonDaemon = true
			}
		}
	}
	if nonDaemon {
		p.obl++
		p.recordViolation("deadlock", "deadlock: no enabled thread; blocked:"+blocked, p.model, "")
	}
	panic(pathEnd{"deadlock"})
}

// exit is called when thread th finished; hands control to another thread.
func (s *Sched) exit(th *Thread) {
	th.done = true
	next := s.pick(th)
	if next == nil {
		// nobody can run: main is blocked forever
		func() {
			defer func() {
				if r := recover(); r != nil {
					if pe, ok := r.(pathEnd); ok {
						s.finish(pe.reason)
						return
					}
					panic(r)
				}
			}()
			s.deadlock()
		}()
		return
	}
	s.switches++
	s.cur = next
	next.resume <- struct{}{}
}

// ---------- channels ----------

func (s *Sched) newChan(capacity int) *ChanObj {
	s.nchan++
	return &ChanObj{cap: capacity, id: s.nchan}
}

// partner finds a blocked thread (≠ th) registered on ch with the opposite direction.
func (s *Sched) partner(th *Thread, ch *ChanObj, wantSend bool) (*Thread, int) {
	var best *Thread
	bi := -1
	for _, t := range s.threads {
		if t == th || t.done || t.handoff != nil {
			continue
		}
		for i, c := range t.waitCases {
			if c.ch == ch && c.send == wantSend {
				if best == nil || t.waitSeq < best.waitSeq {
					best, bi = t, i
				}
				break
			}
		}
	}
	return best, bi
}

func (s *Sched) caseReady(th *Thread, c selCase) bool {
	if c.ch == nil {
		return false
	}
	if c.send {
		if c.ch.closed {
			return true // will panic
		}
		if len(c.ch.buf) < c.ch.cap {
			return true
		}
		if c.ch.cap == 0 {
			t, _ := s.partner(th, c.ch, false)
			return t != nil
		}
		return false
	}
	if len(c.ch.buf) > 0 || c.ch.closed {
		return true
	}
	if c.ch.cap == 0 {
		t, _ := s.partner(th, c.ch, true)
		return t != nil
	}
	return false
}

// doCase performs a ready case for the running thread th. Returns received value/ok for receives.
func (s *Sched) doCase(th *Thread, c selCase, zero Value) (Value, bool) {
	if c.send {
		if c.ch.closed {
			panic(targetPanic{mkExtErr("send on closed channel")})
		}
		if c.ch.cap == 0 {
			t, i := s.partner(th, c.ch, false)
			t.handoff = &handoff{caseIdx: i, val: c.val, ok: true}
			return nil, true
		}
		c.ch.buf = append(c.ch.buf, c.val)
		return nil, true
	}
	if len(c.ch.buf) > 0 {
		v := c.ch.buf[0]
		c.ch.buf = c.ch.buf[1:]
		// Go semantics: a receive from a full buffered channel completes the longest-waiting blocked send at once
		if t, i := s.partner(th, c.ch, true); t != nil && len(c.ch.buf) < c.ch.cap {
			c.ch.buf = append(c.ch.buf, t.waitCases[i].val)
			t.handoff = &handoff{caseIdx: i, ok: true}
		}
		return v, true
	}
	if c.ch.cap == 0 {
		if t, i := s.partner(th, c.ch, true); t != nil {
			v := t.waitCases[i].val
			t.handoff = &handoff{caseIdx: i, ok: true}
			return v, true
		}
	}
	if c.ch.closed {
		return zero, false
	}
	panic("doCase: case not ready")
}

// selectOp implements select/send/recv. Returns chosen index (-1 for default), received value, ok.
func (s *Sched) selectOp(th *Thread, cases []selCase, hasDefault bool, zeros []Value) (int, Value, bool) {
	th.waitCases = cases
	th.handoff = nil
	s.waitCounter++
	th.waitSeq = s.waitCounter
	anyReady := func() bool {
		if th.handoff != nil {
			return true
		}
		for _, c := range cases {
			if s.caseReady(th, c) {
				return true
			}
		}
		return false
	}
	if hasDefault {
		s.syncPoint(th, nil)
	} else {
		s.syncPoint(th, anyReady)
	}
	th.waitCases = nil
	if h := th.handoff; h != nil {
		th.handoff = nil
		return h.caseIdx, h.val, h.ok
	}
	var ready []int
	for i, c := range cases {
		if s.caseReady(th, c) {
			ready = append(ready, i)
		}
	}
	if len(ready) == 0 {
		if hasDefault {
			return -1, nil, false
		}
		panic("selectOp: resumed without ready case")
	}
	k := 0
	if len(ready) > 1 {
		k = s.p.chooseNCat(len(ready), "select")
	}
	i := ready[k]
	var z Value
	if zeros != nil {
		z = zeros[i]
	}
	v, ok := s.doCase(th, cases[i], z)
	return i, v, ok
}

func (s *Sched) closeChan(th *Thread, ch *ChanObj) {
	if ch == nil {
		panic(targetPanic{mkExtErr("close of nil channel")})
	}
	if ch.closed {
		panic(targetPanic{mkExtErr("close of closed channel")})
	}
	ch.closed = true
}

// ---------- timers ----------

func (s *Sched) newTimer(periodic bool, label string) *Timer {
	ch := s.newChan(1)
	t := &Timer{ch: ch, periodic: periodic, id: len(s.timers), label: label}
	ch.timer = t
	s.timers = append(s.timers, t)
	return t
}

// yield is an explicit scheduling point at which other runnable threads go first by default.
func (s *Sched) yield(th *Thread) {
	th.yielding = true
	s.syncPoint(th, nil)
	th.yielding = false
}
