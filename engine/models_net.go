package main

// Model of net connections (filled in with the mailbox checks).

func registerNetIntrinsics() {}

func (p *Path) connStream(w Iface, write bool) *gobStream { return nil }

func (p *Path) connWaitReadable(th *Thread, r Iface, s *gobStream) Iface { return Iface{} }
