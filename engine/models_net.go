package main

// Model of net (listeners, reliable FIFO connections carrying gob items) and net/rpc (calls routed to the REAL
// receiver method on a fresh goroutine, arguments and replies deep-copied through the gob model).

import (
	"fmt"
	"go/types"
	"strings"

	"golang.org/x/tools/go/ssa"
)

type mListener struct {
	addr     string
	closed   bool
	queue    []*mConnEnd
	accepted []*mConnEnd
}

type mConnEnd struct {
	rx       *gobStream // items waiting to be read at this end
	peer     *mConnEnd
	closed   bool
	server   *mServer
	deadline bool // a read deadline is set
	id       int
	timer    *Timer
}

type mServer struct {
	rcvrs map[string]Iface
}

type mClient struct {
	end      *mConnEnd
	shutdown bool
}

type netWorld struct {
	listeners map[string]*mListener
	nconn     int
	faultDial bool
}

func (p *Path) net() *netWorld {
	w, ok := p.side["netWorld"].(*netWorld)
	if !ok {
		w = &netWorld{listeners: map[string]*mListener{}}
		p.side["netWorld"] = w
	}
	return w
}

func (p *Path) netType(pkg, name string) types.Type {
	return types.NewPointer(p.e.pkgs[pkg].Type(name).Type())
}

func (p *Path) newNetObject(pkg, typ string, state any) Iface {
	cell := p.newModelObject(pkg, typ, state)
	return Iface{t: p.netType(pkg, typ), v: cell}
}

func (p *Path) connEnd(v Value) *mConnEnd {
	switch x := v.(type) {
	case Iface:
		if x.t == nil {
			return nil
		}
		return p.connEnd(x.v)
	case *Value:
		if x == nil {
			return nil
		}
		e, _ := p.side[x].(*mConnEnd)
		return e
	}
	return nil
}

func (p *Path) connStream(w Iface, write bool) *gobStream {
	if strings.HasSuffix(w.t.String(), "readWriterConnTimeout") {
		st, ok := w.v.(Struct)
		if !ok {
			if ptr, isPtr := w.v.(*Value); isPtr && ptr != nil {
				st = (*ptr).(Struct)
			}
		}
		return p.connStream(st[0].(Iface), write)
	}
	e := p.connEnd(w)
	if e == nil {
		return nil
	}
	if write {
		if e.closed || e.peer.closed {
			return &gobStream{closed: true}
		}
		return e.peer.rx
	}
	return e.rx
}

func (p *Path) connOf(w Iface) *mConnEnd {
	if strings.HasSuffix(w.t.String(), "readWriterConnTimeout") {
		st, ok := w.v.(Struct)
		if !ok {
			if ptr, isPtr := w.v.(*Value); isPtr && ptr != nil {
				st = (*ptr).(Struct)
			}
		}
		return p.connOf(st[0].(Iface))
	}
	return p.connEnd(w)
}

// connWaitReadable blocks until an item is available; returns io.EOF when the peer closed, a timeout error when the
// read deadline expires (modelled as a timer that may fire when the system is otherwise idle).
func (p *Path) connWaitReadable(th *Thread, r Iface, s *gobStream) Iface {
	e := p.connOf(r)
	if e == nil {
		return Iface{}
	}
	var t *Timer
	if e.deadline {
		t = p.sched.newTimer(false, "ReadDeadline")
		th.waitCases = []selCase{{ch: t.ch}}
	}
	p.sched.syncPoint(th, func() bool {
		return len(e.rx.items) > 0 || e.closed || e.peer.closed || (t != nil && len(t.ch.buf) > 0)
	})
	th.waitCases = nil
	if t != nil {
		t.stopped = true
	}
	if len(e.rx.items) > 0 {
		return Iface{}
	}
	if e.closed {
		return mkExtErr("use of closed network connection")
	}
	if e.peer.closed {
		return p.ioEOF()
	}
	return mkExtErr("i/o timeout")
}

func (p *Path) errShutdown() Iface {
	if pkg := p.e.pkgs["net/rpc"]; pkg != nil {
		if g, ok := pkg.Members["ErrShutdown"].(*ssa.Global); ok {
			return (*p.globalAddr(g)).(Iface)
		}
	}
	return mkExtErr("connection is shut down")
}

func registerNetIntrinsics() {
	listen := func(p *Path, th *Thread, fr *Frame, args []Value) Value {
		addr := args[1].(string)
		w := p.net()
		if l, ok := w.listeners[addr]; ok && !l.closed {
			return Tuple{Iface{}, mkExtErr("listen tcp " + addr + ": bind: address already in use")}
		}
		l := &mListener{addr: addr}
		w.listeners[addr] = l
		return Tuple{p.newNetObject("net", "TCPListener", l), Iface{}}
	}
	intrinsics["net.Listen"] = listen
	accept := func(p *Path, th *Thread, fr *Frame, args []Value) Value {
		l := p.side[args[0].(*Value)].(*mListener)
		p.sched.syncPoint(th, func() bool { return len(l.queue) > 0 || l.closed })
		if len(l.queue) == 0 {
			return Tuple{Iface{}, mkExtErr("accept tcp " + l.addr + ": use of closed network connection")}
		}
		e := l.queue[0]
		l.queue = l.queue[1:]
		l.accepted = append(l.accepted, e)
		return Tuple{p.newNetObject("net", "TCPConn", e), Iface{}}
	}
	intrinsics["(*net.TCPListener).Accept"] = accept
	intrinsics["(*net.TCPListener).Close"] = func(p *Path, th *Thread, fr *Frame, args []Value) Value {
		l := p.side[args[0].(*Value)].(*mListener)
		if l.closed {
			return mkExtErr("close tcp: use of closed network connection")
		}
		l.closed = true
		return Iface{}
	}
	intrinsics["(*net.TCPListener).Addr"] = func(p *Path, th *Thread, fr *Frame, args []Value) Value { return Iface{} }
	dial := func(p *Path, addr string) Value {
		w := p.net()
		l, ok := w.listeners[addr]
		if !ok || l.closed {
			return Tuple{Iface{}, mkExtErr("dial tcp " + addr + ": connect: connection refused")}
		}
		w.nconn++
		a := &mConnEnd{rx: &gobStream{}, id: w.nconn}
		b := &mConnEnd{rx: &gobStream{}, id: w.nconn}
		a.peer, b.peer = b, a
		l.queue = append(l.queue, b)
		return Tuple{p.newNetObject("net", "TCPConn", a), Iface{}}
	}
	intrinsics["net.DialTimeout"] = func(p *Path, th *Thread, fr *Frame, args []Value) Value {
		return dial(p, args[1].(string))
	}
	intrinsics["net.Dial"] = func(p *Path, th *Thread, fr *Frame, args []Value) Value {
		return dial(p, args[1].(string))
	}
	intrinsics["(*net.Dialer).Dial"] = func(p *Path, th *Thread, fr *Frame, args []Value) Value {
		return dial(p, args[2].(string))
	}
	intrinsics["(*net.TCPConn).Close"] = func(p *Path, th *Thread, fr *Frame, args []Value) Value {
		e := p.side[args[0].(*Value)].(*mConnEnd)
		if e.closed {
			return mkExtErr("use of closed network connection")
		}
		e.closed = true
		return Iface{}
	}
	intrinsics["(*net.conn).Close"] = intrinsics["(*net.TCPConn).Close"]
	setDeadline := func(p *Path, th *Thread, fr *Frame, args []Value) Value {
		e := p.side[args[0].(*Value)].(*mConnEnd)
		// a zero time.Time clears the deadline
		t := args[1].(Struct)
		ext := t[1].(*Term)
		wall := t[0].(*Term)
		e.deadline = !(ext.IsConst() && ext.val == 0 && wall.IsConst() && wall.val == 0)
		return Iface{}
	}
	intrinsics["(*net.TCPConn).SetReadDeadline"] = setDeadline
	intrinsics["(*net.conn).SetReadDeadline"] = setDeadline
	noDeadline := func(p *Path, th *Thread, fr *Frame, args []Value) Value { return Iface{} }
	intrinsics["(*net.TCPConn).SetWriteDeadline"] = noDeadline
	intrinsics["(*net.conn).SetWriteDeadline"] = noDeadline
	intrinsics["(*net.TCPConn).SetDeadline"] = noDeadline
	intrinsics["(*net.conn).SetDeadline"] = noDeadline

	// ---------- net/rpc ----------
	intrinsics["net/rpc.NewServer"] = func(p *Path, th *Thread, fr *Frame, args []Value) Value {
		return p.newModelObject("net/rpc", "Server", &mServer{rcvrs: map[string]Iface{}})
	}
	intrinsics["(*net/rpc.Server).Register"] = func(p *Path, th *Thread, fr *Frame, args []Value) Value {
		s := p.side[args[0].(*Value)].(*mServer)
		rcvr := args[1].(Iface)
		t := rcvr.t
		if pt, ok := t.(*types.Pointer); ok {
			t = pt.Elem()
		}
		name := t.String()
		if n, ok := t.(*types.Named); ok {
			name = n.Obj().Name()
		}
		s.rcvrs[name] = rcvr
		return Iface{}
	}
	intrinsics["(*net/rpc.Server).RegisterName"] = func(p *Path, th *Thread, fr *Frame, args []Value) Value {
		s := p.side[args[0].(*Value)].(*mServer)
		s.rcvrs[args[1].(string)] = args[2].(Iface)
		return Iface{}
	}
	intrinsics["(*net/rpc.Server).ServeConn"] = func(p *Path, th *Thread, fr *Frame, args []Value) Value {
		s := p.side[args[0].(*Value)].(*mServer)
		e := p.connEnd(args[1])
		e.server = s
		th.daemon = true
		p.sched.syncPoint(th, func() bool { return e.closed || e.peer.closed })
		return nil
	}
	intrinsics["(*net/rpc.Server).Accept"] = func(p *Path, th *Thread, fr *Frame, args []Value) Value {
		s := p.side[args[0].(*Value)].(*mServer)
		lis := args[1].(Iface)
		l := p.side[lis.v.(*Value)].(*mListener)
		th.daemon = true
		for {
			p.sched.syncPoint(th, func() bool { return len(l.queue) > 0 || l.closed })
			if len(l.queue) == 0 {
				return nil
			}
			e := l.queue[0]
			l.queue = l.queue[1:]
			l.accepted = append(l.accepted, e)
			e.server = s
		}
	}
	intrinsics["net/rpc.NewClient"] = func(p *Path, th *Thread, fr *Frame, args []Value) Value {
		return p.newModelObject("net/rpc", "Client", &mClient{end: p.connEnd(args[0])})
	}
	intrinsics["(*net/rpc.Client).Close"] = func(p *Path, th *Thread, fr *Frame, args []Value) Value {
		c := p.side[args[0].(*Value)].(*mClient)
		if c.shutdown {
			return p.errShutdown()
		}
		c.shutdown = true
		c.end.closed = true
		return Iface{}
	}
	intrinsics["(*net/rpc.Client).Go"] = func(p *Path, th *Thread, fr *Frame, args []Value) Value {
		return p.rpcGo(th, fr, args)
	}
	intrinsics["(*net/rpc.Client).Call"] = func(p *Path, th *Thread, fr *Frame, args []Value) Value {
		call := p.rpcGo(th, fr, append(args, (*ChanObj)(nil))).(*Value)
		st := (*call).(Struct)
		done := st[4].(*ChanObj)
		p.chanRecv(th, done, (*Value)(nil))
		return st[3]
	}
}

// rpcGo implements (*rpc.Client).Go: args = client, serviceMethod, args, reply, done.
func (p *Path) rpcGo(th *Thread, fr *Frame, args []Value) Value {
	c := p.side[args[0].(*Value)].(*mClient)
	method := args[1].(string)
	callT := p.e.pkgs["net/rpc"].Type("Call").Type()
	cell := new(Value)
	st := p.e.zero(p.tt, callT).(Struct)
	*cell = st
	st = (*cell).(Struct)
	st[0] = method
	st[1] = args[2]
	st[2] = args[3]
	done, _ := args[4].(*ChanObj)
	if done == nil {
		done = p.sched.newChan(10)
	}
	st[4] = done
	argIface := args[2].(Iface)
	replyIface := args[3].(Iface)
	finish := func(t *Thread, err Iface) {
		st[3] = err
		if len(done.buf) < done.cap {
			done.buf = append(done.buf, cell)
		}
	}
	p.sched.spawn("rpc:"+method, func(t *Thread) {
		t.daemon = true
		end := c.end
		p.sched.syncPoint(t, func() bool { return c.shutdown || end.closed || end.peer.closed || end.peer.server != nil })
		if c.shutdown || end.closed || end.peer.closed {
			finish(t, p.errShutdown())
			return
		}
		srv := end.peer.server
		dot := strings.LastIndex(method, ".")
		if dot < 0 {
			finish(t, mkExtErr("rpc: service/method request ill-formed: "+method))
			return
		}
		rcvr, ok := srv.rcvrs[method[:dot]]
		if !ok {
			finish(t, mkExtErr("rpc: can't find service "+method))
			return
		}
		m := p.safeLookup(rcvr.t, method[dot+1:])
		if m == nil {
			finish(t, mkExtErr("rpc: can't find method "+method))
			return
		}
		sig := m.Signature
		argT := sig.Params().At(0).Type()
		replyT := sig.Params().At(1).Type().(*types.Pointer).Elem()
		// deep copy of the argument through the gob model: the callee never sees the caller's pointers
		g, err := p.gobEncodeVal(t, nil, argIface.t, argIface.v)
		if err.t != nil {
			finish(t, err)
			return
		}
		argCell := new(Value)
		var argVal Value
		if pt, isPtr := argT.(*types.Pointer); isPtr {
			*argCell = p.e.zero(p.tt, pt.Elem())
			if derr := p.gobDecodeInto(t, nil, argCell, pt.Elem(), g); derr.t != nil {
				finish(t, derr)
				return
			}
			argVal = argCell
		} else {
			*argCell = p.e.zero(p.tt, argT)
			if derr := p.gobDecodeInto(t, nil, argCell, argT, g); derr.t != nil {
				finish(t, derr)
				return
			}
			argVal = load(argCell)
		}
		replyCell := new(Value)
		*replyCell = p.e.zero(p.tt, replyT)
		res := p.call(t, nil, m, []Value{rcvr.v, argVal, replyCell})
		if rerr := res.(Iface); rerr.t != nil {
			// net/rpc transports only the error text (rpc.ServerError)
			finish(t, mkExtErr("rpc server error: "+p.panicString(rerr)))
			return
		}
		if c.shutdown || end.closed {
			finish(t, p.errShutdown())
			return
		}
		rg, err := p.gobEncodeVal(t, nil, replyT, load(replyCell))
		if err.t != nil {
			finish(t, err)
			return
		}
		if rp, ok := replyIface.v.(*Value); ok && rp != nil {
			if derr := p.gobDecodeInto(t, nil, rp, replyIface.t.(*types.Pointer).Elem(), rg); derr.t != nil {
				finish(t, derr)
				return
			}
		}
		finish(t, Iface{})
	})
	return cell
}

var _ = fmt.Sprint
