package main

import (
	"encoding/json"
	"flag"
	"fmt"
	"os"
	"path/filepath"
	"runtime"
	"runtime/debug"
	"runtime/pprof"
	"sort"
	"strconv"
	"strings"
	"time"

	"golang.org/x/tools/go/ssa"
)

// Group: one package load, many harnesses.
type Group struct {
	Dir       string            `json:"dir"`      // directory to load from (module dir inside /repo)
	Patterns  []string          `json:"patterns"` // package patterns
	Overlay   map[string]string `json:"overlay"`  // virtual path (abs) -> real file
	Harnesses []HarnessCfg      `json:"harnesses"`
}

type RunCfg struct {
	Property string  `json:"property"`
	Groups   []Group `json:"groups"`
}

type HarnessOut struct {
	Name          string                `json:"name"`
	Pkg           string                `json:"pkg"`
	Encoding      string                `json:"encoding"`
	Paths         int                   `json:"paths"`
	PathsSym      int                   `json:"paths_symbolic"`
	DistinctPCs   int                   `json:"distinct_path_conditions"`
	Obligations   int                   `json:"obligations"`
	Discharged    int                   `json:"discharged"`
	Trivial       int                   `json:"trivially_true"`
	Violated      int                   `json:"violated"`
	Inconclusive  int                   `json:"inconclusive"`
	AssumePruned  int                   `json:"assume_pruned"`
	Steps         int64                 `json:"steps"`
	States        int64                 `json:"sched_points"`
	Transitions   int64                 `json:"transitions"`
	Reach         map[string]int        `json:"reach"`
	Violations    []Violation           `json:"violations"`
	InconclReason map[string]int        `json:"inconclusive_reasons"`
	Funcs         map[string]int        `json:"functions_encoded"`
	Intrinsics    map[string]int        `json:"intrinsics_used"`
	Queries       int                   `json:"queries"`
	Sat           int                   `json:"sat"`
	Unsat         int                   `json:"unsat"`
	Unknown       int                   `json:"unknown"`
	SolverErrors  int                   `json:"solver_errors"`
	SolverWallS   float64               `json:"solver_wall_s"`
	WallS         float64               `json:"wall_s"`
	BudgetHit     string                `json:"budget_hit"`
	SamplePCs     []string              `json:"sample_path_conditions"`
	SampleModels  []map[string][]string `json:"sample_models"`
	Prints        []string              `json:"prints,omitempty"`
	Bounds        map[string]any        `json:"bounds"`
	CrossChecked  int                   `json:"cross_checked"`
	CrossDisagree int                   `json:"cross_disagreements"`
	Solver        string                `json:"solver"`
}

func main() {
	cfgPath := flag.String("cfg", "", "run config json")
	outPath := flag.String("out", "", "output json")
	tier := flag.String("tier", "quick", "quick|thorough")
	workers := flag.Int("workers", runtime.NumCPU(), "worker threads")
	only := flag.String("only", "", "comma-separated harness names to run")
	verbose := flag.Bool("v", false, "verbose (engine panics are fatal)")
	sites := flag.Bool("sites", false, "record the source site of every symbolic decision in violations")
	cross := flag.String("cross", "", "comma-separated secondary solvers for differential check (z3-new,cvc5)")
	replay := flag.String("replay", "", "replay a violation json in concrete mode")
	cpuprof := flag.String("cpuprofile", "", "write cpu profile")
	fnprof := flag.Bool("fnprofile", false, "print interpreted instructions per function (slow)")
	flag.Parse()
	if *fnprof {
		fnProfile = map[*ssa.Function]int{}
		defer func() {
			type kv struct {
				f *ssa.Function
				n int
			}
			var l []kv
			tot := 0
			for f, n := range fnProfile {
				l = append(l, kv{f, n})
				tot += n
			}
			sort.Slice(l, func(i, j int) bool { return l[i].n > l[j].n })
			for i, e := range l {
				if i >= 40 {
					break
				}
				fmt.Fprintf(os.Stderr, "%10d %5.1f%% %s\n", e.n, 100*float64(e.n)/float64(tot), e.f.String())
			}
		}()
	}
	gcp := 100
	if v, err := strconv.Atoi(os.Getenv("VERIF_GOGC")); err == nil {
		gcp = v
	}
	debug.SetGCPercent(gcp)
	if *cpuprof != "" {
		f, _ := os.Create(*cpuprof)
		pprof.StartCPUProfile(f)
		defer pprof.StopCPUProfile()
	}
	var replayViol *Violation
	if *replay != "" {
		b, err := os.ReadFile(*replay)
		if err != nil {
			fmt.Fprintln(os.Stderr, "cannot read replay:", err)
			os.Exit(2)
		}
		replayViol = &Violation{}
		if err := json.Unmarshal(b, replayViol); err != nil {
			fmt.Fprintln(os.Stderr, "bad replay:", err)
			os.Exit(2)
		}
	}
	if *verbose {
		nslow := 0
		slowLog = func(txt string, d time.Duration, lines []string) {
			nslow++
			fn := fmt.Sprintf("/tmp/gosmt_slow_%d.smt2", nslow)
			os.WriteFile(fn, []byte(txt), 0o644)
			fmt.Fprintf(os.Stderr, "slow query %.1fs -> %v (last batch in %s)\n", d.Seconds(), lines, fn)
		}
	}
	raw, err := os.ReadFile(*cfgPath)
	if err != nil {
		fmt.Fprintln(os.Stderr, "cannot read cfg:", err)
		os.Exit(2)
	}
	var rc RunCfg
	if err := json.Unmarshal(raw, &rc); err != nil {
		fmt.Fprintln(os.Stderr, "bad cfg:", err)
		os.Exit(2)
	}
	onlySet := map[string]bool{}
	for _, n := range strings.Split(*only, ",") {
		if n != "" {
			onlySet[n] = true
		}
	}
	var outs []HarnessOut
	for _, g := range rc.Groups {
		overlay := map[string][]byte{}
		for virt, real := range g.Overlay {
			b, err := os.ReadFile(real)
			if err != nil {
				fmt.Fprintln(os.Stderr, "overlay:", err)
				os.Exit(2)
			}
			if !filepath.IsAbs(virt) {
				virt = filepath.Join(g.Dir, virt)
			}
			overlay[virt] = b
		}
		t0 := time.Now()
		prog, pkgs, err := loadProgram(g.Dir, g.Patterns, overlay)
		if err != nil {
			fmt.Fprintln(os.Stderr, "load failed:", err)
			os.Exit(2)
		}
		fmt.Fprintf(os.Stderr, "loaded %v in %.1fs\n", g.Patterns, time.Since(t0).Seconds())
		e := &Engine{prog: prog, pkgs: pkgs, interpPrefixes: append([]string{"math/bits", "sort", "slices", "cmp"}, interpPrefixesDefault...), builtPkgs: map[*ssa.Package]bool{}, verbose: *verbose, debugSites: *sites}
		e.buildInterpreted()
		for _, c := range strings.Split(*cross, ",") {
			if c != "" {
				e.crossSolvers = append(e.crossSolvers, solverKindOf(c))
			}
		}
		for _, h := range g.Harnesses {
			if len(onlySet) > 0 && !onlySet[h.Name] {
				continue
			}
			if replayViol != nil {
				if replayViol.Harness != h.Name {
					continue
				}
				e.replay = replayViol
				h.Tier = ""
			}
			if h.Tier == "thorough" && *tier != "thorough" {
				continue
			}
			if h.Tier == "quick" && *tier != "quick" {
				continue
			}
			res := e.RunHarness(h, *workers)
			o := HarnessOut{Name: h.Name, Pkg: h.Pkg, Encoding: h.Encoding, Paths: res.Paths, PathsSym: res.PathsSym, DistinctPCs: res.DistinctPCs,
				Obligations: res.Obligations, Discharged: res.Discharged, Trivial: res.Trivial, Violated: res.Violated, Inconclusive: res.Inconclusive,
				AssumePruned: res.AssumePruned, Steps: res.Steps, States: res.States, Transitions: res.Transitions, Reach: res.Reach,
				Violations: res.Violations, InconclReason: res.InconclReason, Funcs: res.Funcs, Intrinsics: res.Intrinsics,
				Queries: res.Queries, Sat: res.Sat, Unsat: res.Unsat, Unknown: res.Unknown, SolverErrors: res.SolverErrors,
				SolverWallS: res.SolverWall.Seconds(), WallS: res.Wall.Seconds(), BudgetHit: res.BudgetHit,
				SamplePCs: res.SamplePCs, SampleModels: res.SampleModels, Prints: res.Prints,
				CrossChecked: res.CrossChecked, CrossDisagree: res.CrossDisagree, Solver: solverKindOf(res.Cfg.Solver).String(),
				Bounds: map[string]any{"unwind": res.Cfg.Unwind, "max_steps": res.Cfg.MaxSteps, "max_paths": res.Cfg.MaxPaths, "query_timeout_ms": res.Cfg.TimeoutMs, "preempt": res.Cfg.Preempt, "timers": res.Cfg.TimerPolicy}}
			outs = append(outs, o)
			fmt.Fprintf(os.Stderr, "%-40s paths=%d obl=%d dis=%d viol=%d inc=%d queries=%d wall=%.1fs %s\n", h.Name, o.Paths, o.Obligations, o.Discharged, o.Violated, o.Inconclusive, o.Queries, o.WallS, o.BudgetHit)
			if *verbose {
				for k, v := range o.InconclReason {
					fmt.Fprintf(os.Stderr, "   inconclusive: %s x%d\n", k, v)
				}
				for _, v := range o.Violations {
					fmt.Fprintf(os.Stderr, "   VIOL %s: %s %v\n", v.Kind, v.Msg, v.Values)
				}
				for k, v := range res.ChoiceStats {
					fmt.Fprintf(os.Stderr, "   forks from %s: %d\n", k, v)
				}
				for _, pr := range o.Prints {
					fmt.Fprintf(os.Stderr, "   print: %s\n", pr)
				}
			}
		}
	}
	b, _ := json.MarshalIndent(map[string]any{"property": rc.Property, "tier": *tier, "harnesses": outs}, "", " ")
	if *outPath != "" {
		os.WriteFile(*outPath, b, 0o644)
	} else {
		os.Stdout.Write(b)
	}
}
