package main

// Engine: package loading, path exploration by re-execution with decision prefixes,
// obligations, models, statistics.

import (
	"fmt"
	"go/types"
	"os"
	"sort"
	"strings"
	"sync"
	"time"

	"golang.org/x/tools/go/packages"
	"golang.org/x/tools/go/ssa"
	"golang.org/x/tools/go/ssa/ssautil"
)

type HarnessCfg struct {
	Name        string            `json:"name"`     // entry function name
	Pkg         string            `json:"pkg"`      // import path
	Encoding    string            `json:"encoding"` // "bv" | "int"
	Unwind      int               `json:"unwind"`   // default loop bound for symbolic loops
	MaxSteps    int               `json:"max_steps"`
	MaxPaths    int               `json:"max_paths"`
	TimeoutMs   int               `json:"timeout_ms"` // per query
	WallS       int               `json:"wall_s"`     // per harness wall budget
	Preempt     int               `json:"preempt"`    // preemption bound (-1 = unbounded)
	TimerPolicy string            `json:"timers"`     // "idle" (default) | "any" | "never"
	PermuteMaps bool              `json:"permute_maps"`
	Tier        string            `json:"tier"` // "" = both, "thorough" = thorough only
	Solver      string            `json:"solver"`
	ExpectSteps bool              `json:"strict_steps"` // exceeding max_steps is a termination violation
	Env         map[string]string `json:"env"`
}

type Violation struct {
	Harness   string              `json:"harness"`
	Pkg       string              `json:"pkg"`
	Kind      string              `json:"kind"` // assert | unwind | steps | deadlock | panic
	Msg       string              `json:"msg"`
	Values    map[string][]string `json:"values"` // tag -> values in call order (decimal strings, signed by kind)
	Decisions []int               `json:"decisions"`
	Schedule  []int               `json:"schedule,omitempty"`
	Note      string              `json:"note,omitempty"`
	Sites     []string            `json:"sites,omitempty"`
	Choices   []int               `json:"choices"`
}

type HarnessResult struct {
	Cfg           HarnessCfg
	Paths         int
	PathsSym      int // paths with at least one symbolic decision
	Obligations   int
	Discharged    int
	Trivial       int // obligations whose condition folded to true
	Violated      int
	Inconclusive  int
	AssumePruned  int
	Steps         int64
	Reach         map[string]int
	Violations    []Violation
	InconclReason map[string]int
	Funcs         map[string]int // SSA functions entered -> instruction count
	Intrinsics    map[string]int
	Queries       int
	SolverWall    time.Duration
	Sat, Unsat    int
	Unknown       int
	SolverErrors  int
	Wall          time.Duration
	BudgetHit     string
	SamplePCs     []string
	SampleModels  []map[string][]string
	distinctPC    map[string]bool
	DistinctPCs   int
	States        int64
	Transitions   int64
	Prints        []string
	CrossChecked  int
	ChoiceStats   map[string]int
	CrossDisagree int
}

type Engine struct {
	prog           *ssa.Program
	pkgs           map[string]*ssa.Package
	intMode        bool
	cfg            HarnessCfg
	mu             sync.Mutex
	res            *HarnessResult
	work           []workItem
	busy           int
	cond           *sync.Cond
	stop           bool
	deadline       time.Time
	interpPrefixes []string
	builtPkgs      map[*ssa.Package]bool
	buildMu        sync.Mutex
	fnInfos        sync.Map
	fnNames        sync.Map
	verbose        bool
	crossSolvers   []SolverKind
	crossSeen      map[string]bool
	replay         *Violation
	debugSites     bool
}

type workItem struct {
	prefix []int
	model  Model
}

var interpPrefixesDefault = []string{
	"github.com/DistCompiler/pgo/",
	"github.com/benbjohnson/immutable",
	"go.uber.org/multierr",
	"github.com/segmentio/fasthash",
	"example.org/",
	"verifharness",
}

func loadProgram(dir string, patterns []string, overlay map[string][]byte) (*ssa.Program, map[string]*ssa.Package, error) {
	cfg := &packages.Config{
		Mode:       packages.LoadAllSyntax,
		Dir:        dir,
		BuildFlags: []string{"-tags=verif"},
		Overlay:    overlay,
		Env:        append(os.Environ(), "GOFLAGS=", "GOTOOLCHAIN=local", "GOPROXY=off"),
	}
	pkgs, err := packages.Load(cfg, patterns...)
	if err != nil {
		return nil, nil, err
	}
	var errs []string
	packages.Visit(pkgs, nil, func(p *packages.Package) {
		for _, e := range p.Errors {
			errs = append(errs, e.Error())
		}
	})
	if len(errs) > 0 {
		return nil, nil, fmt.Errorf("package errors:\n%s", strings.Join(errs, "\n"))
	}
	prog, _ := ssautil.AllPackages(pkgs, ssa.InstantiateGenerics)
	out := map[string]*ssa.Package{}
	for _, p := range prog.AllPackages() {
		out[p.Pkg.Path()] = p
	}
	return prog, out, nil
}

func (e *Engine) shouldInterpretPkg(path string) bool {
	for _, p := range e.interpPrefixes {
		if strings.HasPrefix(path, p) {
			return true
		}
	}
	return false
}

func fnPkgPath(fn *ssa.Function) string {
	if fn.Pkg != nil {
		return fn.Pkg.Pkg.Path()
	}
	if o := fn.Origin(); o != nil && o.Pkg != nil {
		return o.Pkg.Pkg.Path()
	}
	if fn.Object() != nil && fn.Object().Pkg() != nil {
		return fn.Object().Pkg().Path()
	}
	if p := fn.Parent(); p != nil {
		return fnPkgPath(p)
	}
	return ""
}

func (e *Engine) ensureBuilt(fn *ssa.Function) {
	var pkg *ssa.Package
	if fn.Pkg != nil {
		pkg = fn.Pkg
	} else if o := fn.Origin(); o != nil {
		pkg = o.Pkg
	}
	if pkg == nil {
		return
	}
	e.buildMu.Lock()
	defer e.buildMu.Unlock()
	if !e.builtPkgs[pkg] {
		pkg.Build()
		e.builtPkgs[pkg] = true
	}
}

// buildInterpreted builds SSA bodies of every interpreted package up-front (single-threaded phase).
func (e *Engine) buildInterpreted() {
	for _, pkg := range e.prog.AllPackages() {
		if e.shouldInterpretPkg(pkg.Pkg.Path()) {
			pkg.Build()
			e.builtPkgs[pkg] = true
		}
	}
}

// ---------- Path ----------

type nondetRec struct {
	tag    string
	v      *Term
	signed bool
	bits   int
}

type pathEnd struct{ reason string }      // engine-level abort of the current path (not a target panic)
type inconclusive struct{ reason string } // unsupported construct

type Path struct {
	e            *Engine
	tt           *TermTable
	solver       *Solver
	pc           []*Term
	asserted     int
	solverGen    int
	prefix       []int
	pos          int
	trace        []int
	nondet       []nondetRec
	tagCount     map[string]int
	model        Model
	steps        int
	symDecisions int
	unwind       int
	unwindStrict bool
	globals      map[*ssa.Global]*Value
	side         map[any]any // side tables for intrinsic models, keyed by cell pointers etc.
	sched        *Sched
	loopCnt      map[loopKey]int
	funcs        map[string]int
	intr         map[string]int
	reach        map[string]bool
	prints       []string
	nextAlloc    int
	expectPanic  bool
	cfgEnv       map[string]string
	// per-path obligations
	obl, dis, triv, viol, inc int
	violations                []Violation
	increasons                []string
	schedule                  []int
	curSite                   string
	siteLog                   []string
	choiceTrace               []int
	choicePos                 int
}

type loopKey struct {
	fr    *Frame
	instr ssa.Instruction
}

// vars lists every SMT variable of this path (harness inputs and uninterpreted-function symbols): cached models must
// assign all of them, otherwise evaluating a condition under the cached model would silently default them to 0.
func (p *Path) vars() []*Term {
	return p.tt.vars
}

func (p *Path) flushPC() {
	if p.solver.dead {
		p.solver.restart()
	}
	if p.solverGen != p.solver.gen {
		p.solverGen = p.solver.gen
		p.asserted = 0
	}
	for p.asserted < len(p.pc) {
		p.solver.Assert(p.pc[p.asserted])
		p.asserted++
	}
}

func (p *Path) addPC(t *Term) {
	if t.IsTrue() {
		return
	}
	p.pc = append(p.pc, t)
}

func (p *Path) modelSatisfies(t *Term) bool {
	if p.model == nil {
		return false
	}
	return t.Eval(p.model, map[*Term]uint64{}) == 1
}

// check queries the solver for PC ∧ t.
func (p *Path) check(t *Term) (SatResult, Model) {
	p.flushPC()
	return p.solver.Check(t, p.vars(), true)
}

// decide turns a boolean term into a concrete branch decision, forking the exploration if both sides are feasible.
func (p *Path) decide(cond *Term) bool {
	if cond.w != 0 {
		panic("decide: non-boolean term")
	}
	if cond.IsConst() {
		return cond.IsTrue()
	}
	tt := p.tt
	idx := p.pos
	p.pos++
	p.symDecisions++
	if p.e.verbose || p.e.debugSites {
		p.siteLog = append(p.siteLog, p.curSite)
	}
	if idx < len(p.prefix) {
		d := p.prefix[idx]
		p.trace = append(p.trace, d)
		if d == 1 {
			p.addPC(cond)
		} else {
			p.addPC(tt.Not(cond))
		}
		return d == 1
	}
	ncond := tt.Not(cond)
	var canT, canF bool
	var mT, mF Model
	if p.modelSatisfies(cond) {
		canT, mT = true, p.model
	} else if p.model != nil && p.modelSatisfies(ncond) {
		canF, mF = true, p.model
	}
	if !canT {
		r, m := p.check(cond)
		switch r {
		case Sat:
			canT, mT = true, m
		case Unknown:
			canT = true
			p.noteInconclusive("solver unknown at branch")
		}
	}
	if !canF {
		if !canT {
			canF, mF = true, p.model // PC is satisfiable, so the other side must be
		} else {
			r, m := p.check(ncond)
			switch r {
			case Sat:
				canF, mF = true, m
			case Unknown:
				canF = true
				p.noteInconclusive("solver unknown at branch")
			}
		}
	}
	switch {
	case canT && canF:
		alt := append(append([]int{}, p.trace...), 0)
		p.e.pushWork(workItem{prefix: alt, model: mF})
		p.trace = append(p.trace, 1)
		p.addPC(cond)
		p.model = mT
		return true
	case canT:
		p.trace = append(p.trace, 1)
		p.addPC(cond)
		p.model = mT
		return true
	case canF:
		p.trace = append(p.trace, 0)
		p.addPC(ncond)
		p.model = mF
		return false
	}
	panic(pathEnd{"infeasible"})
}

func (p *Path) chooseNCat(n int, cat string) int {
	if n > 1 && p.pos >= len(p.prefix) {
		p.e.mu.Lock()
		p.e.res.ChoiceStats[cat] += n - 1
		p.e.mu.Unlock()
	}
	return p.chooseN(n)
}

// chooseN is a pure nondeterministic choice among n alternatives (scheduler, map order).
func (p *Path) chooseN(n int) int {
	if n <= 1 {
		return 0
	}
	if rp := p.e.replay; rp != nil {
		// concrete replay: choices come from the recorded counterexample, independent of symbolic-branch decisions
		c := 0
		if p.choicePos < len(rp.Choices) {
			c = rp.Choices[p.choicePos]
		}
		p.choicePos++
		if c >= n {
			c = 0
		}
		p.choiceTrace = append(p.choiceTrace, c)
		return c
	}
	c := p.chooseN0(n)
	p.choiceTrace = append(p.choiceTrace, c)
	return c
}

func (p *Path) chooseN0(n int) int {
	idx := p.pos
	p.pos++
	if idx < len(p.prefix) {
		d := p.prefix[idx]
		p.trace = append(p.trace, d)
		return d
	}
	for alt := n - 1; alt >= 1; alt-- {
		pre := append(append([]int{}, p.trace...), alt)
		p.e.pushWork(workItem{prefix: pre, model: p.model})
	}
	p.trace = append(p.trace, 0)
	return 0
}

func (p *Path) noteInconclusive(reason string) {
	p.increasons = append(p.increasons, reason)
}

// assume adds cond to the path condition; ends the path if infeasible.
func (p *Path) assume(cond *Term) {
	if cond.IsTrue() {
		return
	}
	if cond.IsFalse() {
		panic(pathEnd{"assume-false"})
	}
	if !p.decide(cond) {
		panic(pathEnd{"assume-false"})
	}
}

func (p *Path) valuesFromModel(m Model) map[string][]string {
	out := map[string][]string{}
	for _, n := range p.nondet {
		var v uint64
		if n.v.IsConst() {
			v = n.v.val
		} else if m != nil {
			v = m[n.v.name]
		}
		var s string
		if n.bits == 0 {
			s = fmt.Sprint(v & 1)
		} else if n.signed {
			if n.v.w == SortInt {
				s = fmt.Sprint(int64(v))
			} else {
				s = fmt.Sprint(sext64(v, n.bits))
			}
		} else {
			if n.v.w == SortInt {
				s = fmt.Sprint(int64(v))
			} else {
				s = fmt.Sprint(v & mask(n.bits))
			}
		}
		out[n.tag] = append(out[n.tag], s)
	}
	return out
}

func (p *Path) recordViolation(kind, msg string, m Model, note string) {
	p.viol++
	if m == nil {
		m = p.model
	}
	p.violations = append(p.violations, Violation{
		Harness: p.e.cfg.Name, Pkg: p.e.cfg.Pkg, Kind: kind, Msg: msg,
		Values: p.valuesFromModel(m), Decisions: append([]int{}, p.trace...), Schedule: append([]int{}, p.schedule...), Note: note,
		Sites: append([]string{}, p.siteLog...), Choices: append([]int{}, p.choiceTrace...),
	})
}

// assertObl is an obligation: PC ⇒ cond.
func (p *Path) assertObl(cond *Term, msg string) {
	p.obl++
	if cond.IsTrue() {
		p.triv++
		p.dis++
		return
	}
	if cond.IsFalse() {
		// PC is satisfiable by construction (model cached or established at last branch)
		m := p.model
		if m == nil {
			r, mm := p.check(nil)
			if r == Unsat {
				p.dis++
				return
			}
			m = mm
		}
		p.recordViolation("assert", msg, m, "")
		panic(pathEnd{"assert-failed"})
	}
	ncond := p.tt.Not(cond)
	if p.modelSatisfies(ncond) {
		p.recordViolation("assert", msg, p.model, "")
	} else {
		r, m := p.check(ncond)
		switch r {
		case Unsat:
			p.dis++
			p.crossCheck(ncond)
		case Sat:
			p.recordViolation("assert", msg, m, "")
		default:
			p.inc++
			p.noteInconclusive("solver unknown on assertion: " + msg)
		}
	}
	// continue under the assumption that the assertion holds
	p.assumeQuiet(cond)
}

// assumeQuiet adds cond to PC after an obligation; ends the path if PC ∧ cond is infeasible.
func (p *Path) assumeQuiet(cond *Term) {
	if p.modelSatisfies(cond) {
		p.addPC(cond)
		return
	}
	r, m := p.check(cond)
	if r == Unsat {
		panic(pathEnd{"after-violation"})
	}
	p.addPC(cond)
	p.model = m
}

func (p *Path) crossCheck(extra *Term) {
	if len(p.e.crossSolvers) == 0 {
		return
	}
	p.e.crossQuery(p, extra)
}

// ---------- exploration ----------

func (e *Engine) pushWork(w workItem) {
	if e.replay != nil {
		return
	}
	e.mu.Lock()
	e.work = append(e.work, w)
	e.mu.Unlock()
	e.cond.Signal()
}

func (e *Engine) popWork() (workItem, bool) {
	e.mu.Lock()
	defer e.mu.Unlock()
	for {
		if e.stop {
			return workItem{}, false
		}
		if n := len(e.work); n > 0 {
			w := e.work[n-1]
			e.work = e.work[:n-1]
			e.busy++
			return w, true
		}
		if e.busy == 0 {
			e.cond.Broadcast()
			return workItem{}, false
		}
		e.cond.Wait()
	}
}

func (e *Engine) doneWork() {
	e.mu.Lock()
	e.busy--
	if e.busy == 0 && len(e.work) == 0 {
		e.cond.Broadcast()
	}
	e.mu.Unlock()
}

func solverKindOf(s string) SolverKind {
	switch s {
	case "z3-new":
		return SolverZ3New
	case "cvc5":
		return SolverCVC5
	}
	return SolverZ3
}

func (e *Engine) RunHarness(cfg HarnessCfg, workers int) *HarnessResult {
	e.cfg = cfg
	e.intMode = cfg.Encoding == "int"
	if cfg.Unwind == 0 {
		cfg.Unwind = 64
	}
	if cfg.MaxSteps == 0 {
		cfg.MaxSteps = 5_000_000
	}
	if cfg.MaxPaths == 0 {
		cfg.MaxPaths = 200_000
	}
	if cfg.TimeoutMs == 0 {
		cfg.TimeoutMs = 20_000
	}
	if cfg.WallS == 0 {
		cfg.WallS = 600
	}
	e.cfg = cfg
	res := &HarnessResult{Cfg: cfg, Reach: map[string]int{}, InconclReason: map[string]int{}, Funcs: map[string]int{}, Intrinsics: map[string]int{}, distinctPC: map[string]bool{}, ChoiceStats: map[string]int{}}
	e.res = res
	e.work = []workItem{{}}
	if e.replay != nil {
		e.work = []workItem{{}}
	}
	e.busy = 0
	e.stop = false
	e.cond = sync.NewCond(&e.mu)
	e.crossSeen = map[string]bool{}
	t0 := time.Now()
	e.deadline = t0.Add(time.Duration(cfg.WallS) * time.Second)

	pkg := e.pkgs[cfg.Pkg]
	if pkg == nil {
		res.BudgetHit = "package not loaded: " + cfg.Pkg
		return res
	}
	entry := pkg.Func(cfg.Name)
	if entry == nil {
		res.BudgetHit = "entry not found: " + cfg.Name
		return res
	}

	var wg sync.WaitGroup
	for w := 0; w < workers; w++ {
		wg.Add(1)
		go func() {
			defer wg.Done()
			solver, err := NewSolver(solverKindOf(cfg.Solver), cfg.TimeoutMs)
			if err != nil {
				e.mu.Lock()
				res.BudgetHit = "solver start failed: " + err.Error()
				e.stop = true
				e.mu.Unlock()
				return
			}
			defer func() {
				e.mu.Lock()
				res.Queries += solver.queries
				res.SolverWall += solver.wall
				res.Sat += solver.sat
				res.Unsat += solver.unsat
				res.Unknown += solver.unknown
				res.SolverErrors += solver.errors
				e.mu.Unlock()
				solver.Close()
			}()
			tt := NewTermTable()
			for {
				item, ok := e.popWork()
				if !ok {
					return
				}
				e.runPath(entry, item, tt, solver)
				e.doneWork()
			}
		}()
	}
	wg.Wait()
	res.Wall = time.Since(t0)
	res.DistinctPCs = len(res.distinctPC)
	return res
}

func (e *Engine) runPath(entry *ssa.Function, item workItem, tt *TermTable, solver *Solver) {
	tt.Reset()
	solver.ResetPath()
	p := &Path{e: e, tt: tt, solver: solver, solverGen: solver.gen, prefix: item.prefix, model: item.model,
		tagCount: map[string]int{}, globals: map[*ssa.Global]*Value{}, side: map[any]any{},
		loopCnt: map[loopKey]int{}, funcs: map[string]int{}, intr: map[string]int{}, reach: map[string]bool{},
		unwind: e.cfg.Unwind, cfgEnv: e.cfg.Env}
	p.sched = newSched(p)
	endReason := p.sched.runMain(entry)
	// merge
	e.mu.Lock()
	defer e.mu.Unlock()
	r := e.res
	r.Paths++
	if p.symDecisions > 0 {
		r.PathsSym++
	}
	r.Obligations += p.obl
	r.Discharged += p.dis
	r.Trivial += p.triv
	r.Violated += p.viol
	r.Inconclusive += p.inc
	r.Steps += int64(p.steps)
	r.States += int64(p.sched.points)
	r.Transitions += int64(p.sched.switches + p.symDecisions)
	if endReason == "assume-false" || endReason == "infeasible" {
		r.AssumePruned++
	}
	for k := range p.reach {
		r.Reach[k]++
	}
	for _, reason := range p.increasons {
		r.InconclReason[reason]++
	}
	if strings.HasPrefix(endReason, "unsupported") || strings.HasPrefix(endReason, "budget") {
		r.InconclReason[endReason]++
		r.Inconclusive++
	}
	for k, v := range p.funcs {
		if r.Funcs[k] < v {
			r.Funcs[k] = v
		}
	}
	for k, v := range p.intr {
		r.Intrinsics[k] += v
	}
	for _, v := range p.violations {
		if len(r.Violations) < 200 {
			r.Violations = append(r.Violations, v)
		}
	}
	if len(r.Prints) < 50 {
		r.Prints = append(r.Prints, p.prints...)
	}
	if p.symDecisions > 0 {
		key := pcKey(p.pc)
		if !r.distinctPC[key] {
			r.distinctPC[key] = true
			if len(r.SamplePCs) < 5 {
				var parts []string
				for i, c := range p.pc {
					if i >= 6 {
						parts = append(parts, "…")
						break
					}
					parts = append(parts, termStr(c, 3))
				}
				r.SamplePCs = append(r.SamplePCs, strings.Join(parts, " ∧ "))
				r.SampleModels = append(r.SampleModels, p.valuesFromModel(p.model))
			}
		}
	}
	if r.Paths >= e.cfg.MaxPaths && !e.stop {
		e.stop = true
		r.BudgetHit = fmt.Sprintf("max_paths %d", e.cfg.MaxPaths)
		e.cond.Broadcast()
	}
	if time.Now().After(e.deadline) && !e.stop {
		e.stop = true
		r.BudgetHit = fmt.Sprintf("wall budget %ds", e.cfg.WallS)
		e.cond.Broadcast()
	}
}

func pcKey(pc []*Term) string {
	var sb strings.Builder
	for _, c := range pc {
		sb.WriteString(termStr(c, 6))
		sb.WriteByte('&')
	}
	return sb.String()
}

func sortedKeys[V any](m map[string]V) []string {
	ks := make([]string, 0, len(m))
	for k := range m {
		ks = append(ks, k)
	}
	sort.Strings(ks)
	return ks
}

var _ = types.Typ
