package main

// Harness API and models of the environment (every model listed here is part of each claim).

import (
	"fmt"
	"go/types"
	"math"
	"os"
	"strconv"
	"strings"

	"golang.org/x/tools/go/ssa"
)

type intrinsicFunc func(p *Path, th *Thread, fr *Frame, args []Value) Value

var harnessAPI map[string]intrinsicFunc
var intrinsics map[string]intrinsicFunc

// std functions that are pure Go and safe to interpret from their SSA
var interpretStd = map[string]bool{}

type opaqueType struct {
	types.Type
	name    string
	methods map[string]*IntrinsicFn
}

func (o *opaqueType) method(name string) Value {
	if m, ok := o.methods[name]; ok {
		return m
	}
	return nil
}
func (o *opaqueType) String() string { return o.name }

func (p *Path) freshVar(tag string, bits int, signed bool) *Term {
	k := p.tagCount[tag]
	p.tagCount[tag]++
	name := fmt.Sprintf("%s#%d", tag, k)
	var v *Term
	if rp := p.e.replay; rp != nil {
		// concrete mode: values come from the recorded counterexample
		var iv int64
		if vs := rp.Values[tag]; k < len(vs) {
			if x, err := strconv.ParseInt(vs[k], 10, 64); err == nil {
				iv = x
			} else if u, err := strconv.ParseUint(vs[k], 10, 64); err == nil {
				iv = int64(u)
			}
		}
		switch {
		case bits == 0:
			v = p.tt.Bool(iv&1 == 1)
		case p.e.intMode:
			v = p.tt.IntConst(iv)
		default:
			v = p.tt.Const(bits, uint64(iv))
		}
		p.nondet = append(p.nondet, nondetRec{tag: tag, v: v, signed: signed, bits: bits})
		return v
	}
	if bits == 0 {
		v = p.tt.Var(name, 0)
	} else if p.e.intMode {
		var lo, hi int64
		if signed {
			if bits >= 63 {
				lo, hi = -rangeLimit+1, rangeLimit-1
			} else {
				lo, hi = -(int64(1) << uint(bits-1)), (int64(1)<<uint(bits-1))-1
			}
		} else {
			if bits >= 62 {
				hi = rangeLimit - 1
			} else {
				hi = int64(mask(bits))
			}
		}
		v = p.tt.VarRange(name, lo, hi)
	} else {
		v = p.tt.Var(name, bits)
	}
	p.nondet = append(p.nondet, nondetRec{tag: tag, v: v, signed: signed, bits: bits})
	return v
}

func nondetOf(bits int, signed bool) intrinsicFunc {
	return func(p *Path, th *Thread, fr *Frame, args []Value) Value {
		return p.freshVar(args[0].(string), bits, signed)
	}
}

func init() {
	harnessAPI = map[string]intrinsicFunc{
		"verifNondetBool":   nondetOf(0, false),
		"verifNondetInt8":   nondetOf(8, true),
		"verifNondetUint8":  nondetOf(8, false),
		"verifNondetInt16":  nondetOf(16, true),
		"verifNondetInt32":  nondetOf(32, true),
		"verifNondetUint32": nondetOf(32, false),
		"verifNondetInt64":  nondetOf(64, true),
		"verifNondetUint64": nondetOf(64, false),
		"verifNondetInt":    nondetOf(64, true),
		"verifNondetUint":   nondetOf(64, false),
		"verifChoose": func(p *Path, th *Thread, fr *Frame, args []Value) Value {
			tag := args[0].(string)
			n := int(p.concreteInt(args[1], "verifChoose bound"))
			c := p.chooseNCat(n, "verifChoose:"+tag)
			t := p.mkIntT(int64(c))
			p.tagCount[tag]++
			p.nondet = append(p.nondet, nondetRec{tag: tag, v: t, signed: true, bits: 64})
			return t
		},
		"verifAssume": func(p *Path, th *Thread, fr *Frame, args []Value) Value {
			p.assume(args[0].(*Term))
			return nil
		},
		"verifAssert": func(p *Path, th *Thread, fr *Frame, args []Value) Value {
			p.assertObl(args[0].(*Term), args[1].(string))
			return nil
		},
		"verifReach": func(p *Path, th *Thread, fr *Frame, args []Value) Value {
			p.reach[args[0].(string)] = true
			return nil
		},
		"verifUnwind": func(p *Path, th *Thread, fr *Frame, args []Value) Value {
			p.unwind = int(p.concreteInt(args[0], "unwind"))
			p.unwindStrict = args[1].(*Term).IsTrue()
			return nil
		},
		"verifYield": func(p *Path, th *Thread, fr *Frame, args []Value) Value {
			p.sched.yield(th)
			return nil
		},
		"verifIsSymbolicRun": func(p *Path, th *Thread, fr *Frame, args []Value) Value {
			return p.tt.Bool(true)
		},
		"verifPrint": func(p *Path, th *Thread, fr *Frame, args []Value) Value {
			var parts []string
			for _, a := range args[0].(Slice).a {
				parts = append(parts, p.describe(a))
			}
			p.prints = append(p.prints, strings.Join(parts, " "))
			return nil
		},
		"verifDaemon": func(p *Path, th *Thread, fr *Frame, args []Value) Value {
			th.daemon = true
			return nil
		},
		"verifQuiesce": func(p *Path, th *Thread, fr *Frame, args []Value) Value {
			// block until no other thread can make progress (environment waits for the system to settle)
			p.sched.syncPoint(th, func() bool {
				for _, t := range p.sched.threads {
					if t == th || t.done {
						continue
					}
					if t.ready == nil || t.ready() {
						return false
					}
				}
				return true
			})
			return nil
		},
		"verifNetKill": func(p *Path, th *Thread, fr *Frame, args []Value) Value {
			// the process listening on addr dies: listener and every connection accepted through it are closed
			addr := args[0].(string)
			if l, ok := p.net().listeners[addr]; ok {
				l.closed = true
				for _, e := range l.accepted {
					e.closed = true
				}
				for _, e := range l.queue {
					e.closed = true
				}
			}
			return nil
		},
		"verifFireTimers": func(p *Path, th *Thread, fr *Frame, args []Value) Value {
			// environment step "time passes": fires every live timer with the given label that some thread waits on
			label := args[0].(string)
			n := 0
			for _, t := range p.sched.liveTimers() {
				if t.label == label {
					p.sched.fire(t)
					n++
				}
			}
			return p.mkIntT(int64(n))
		},
		"verifFireTimerN": func(p *Path, th *Thread, fr *Frame, args []Value) Value {
			// fires the k-th (creation order) live, waited-on timer with the given label
			label := args[0].(string)
			k := int(p.concreteInt(args[1], "timer index"))
			for _, t := range p.sched.timers {
				if t.label != label || t.stopped {
					continue
				}
				if k == 0 {
					for _, lt := range p.sched.liveTimers() {
						if lt == t {
							p.sched.fire(t)
							return p.tt.Bool(true)
						}
					}
					return p.tt.Bool(false)
				}
				k--
			}
			return p.tt.Bool(false)
		},
		"verifSleepCount": func(p *Path, th *Thread, fr *Frame, args []Value) Value {
			n, _ := p.side["sleepCount"].(int)
			return p.mkIntT(int64(n))
		},
		"verifSleepTotal": func(p *Path, th *Thread, fr *Frame, args []Value) Value {
			if tot, ok := p.side["sleepTotal"].(*Term); ok {
				return tot
			}
			return p.mkInt(types.Typ[types.Int64], 0)
		},
		"verifFail": func(p *Path, th *Thread, fr *Frame, args []Value) Value {
			p.assertObl(p.tt.Bool(false), args[0].(string))
			return nil
		},
	}

	intrinsics = map[string]intrinsicFunc{
		"fmt.Errorf":  intrErrorf,
		"fmt.Sprintf": intrSprintf,
		"fmt.Sprint":  func(p *Path, th *Thread, fr *Frame, args []Value) Value { return p.sprint(args[0].(Slice).a, " ") },
		"fmt.Sprintln": func(p *Path, th *Thread, fr *Frame, args []Value) Value {
			return p.sprint(args[0].(Slice).a, " ") + "\n"
		},
		"fmt.Println":  intrNopTuple2,
		"fmt.Printf":   intrNopTuple2,
		"fmt.Print":    intrNopTuple2,
		"fmt.Fprintf":  intrNopTuple2,
		"fmt.Fprintln": intrNopTuple2,
		"log.Printf": func(p *Path, th *Thread, fr *Frame, args []Value) Value {
			if verifLog {
				tid := -1
				if th != nil {
					tid = th.id
				}
				fmt.Fprintf(os.Stderr, "[T%d] %v", tid, intrSprintf(p, th, fr, args))
			}
			return nil
		},
		"log.Println": intrNop,
		"log.Print":   intrNop,
		"log.Fatalf": func(p *Path, th *Thread, fr *Frame, args []Value) Value {
			panic(targetPanic{mkExtErr("log.Fatalf: " + args[0].(string))})
		},
		"log.Fatal": func(p *Path, th *Thread, fr *Frame, args []Value) Value {
			panic(targetPanic{mkExtErr("log.Fatal")})
		},
		"errors.New": func(p *Path, th *Thread, fr *Frame, args []Value) Value {
			return mkExtErr(args[0].(string))
		},
		"errors.Is": func(p *Path, th *Thread, fr *Frame, args []Value) Value {
			return p.tt.Bool(p.errorsIs(th, fr, args[0].(Iface), args[1].(Iface), 0))
		},
		"errors.Unwrap": func(p *Path, th *Thread, fr *Frame, args []Value) Value {
			return p.errUnwrap1(th, fr, args[0].(Iface))
		},
		"os.LookupEnv": func(p *Path, th *Thread, fr *Frame, args []Value) Value {
			v, ok := p.cfgEnv[args[0].(string)]
			return Tuple{v, p.tt.Bool(ok)}
		},
		"os.Getenv": func(p *Path, th *Thread, fr *Frame, args []Value) Value {
			return p.cfgEnv[args[0].(string)]
		},
		"encoding/gob.Register":     intrNop,
		"encoding/gob.RegisterName": intrNop,
		"runtime/debug.Stack": func(p *Path, th *Thread, fr *Frame, args []Value) Value {
			return Slice{a: []Value{}}
		},
		"runtime.Gosched": func(p *Path, th *Thread, fr *Frame, args []Value) Value {
			p.sched.yield(th)
			return nil
		},
		"(*strings.Builder).WriteString": func(p *Path, th *Thread, fr *Frame, args []Value) Value {
			cell := args[0].(*Value)
			s, _ := p.side[cell].(string)
			p.side[cell] = s + args[1].(string)
			return Tuple{p.mkIntT(int64(len(args[1].(string)))), Iface{}}
		},
		"(*strings.Builder).WriteByte": func(p *Path, th *Thread, fr *Frame, args []Value) Value {
			cell := args[0].(*Value)
			s, _ := p.side[cell].(string)
			p.side[cell] = s + string(rune(p.concreteInt(args[1], "byte")))
			return Iface{}
		},
		"(*strings.Builder).String": func(p *Path, th *Thread, fr *Frame, args []Value) Value {
			s, _ := p.side[args[0].(*Value)].(string)
			return s
		},
		"(*strings.Builder).Len": func(p *Path, th *Thread, fr *Frame, args []Value) Value {
			s, _ := p.side[args[0].(*Value)].(string)
			return p.mkIntT(int64(len(s)))
		},
		"strconv.Quote": func(p *Path, th *Thread, fr *Frame, args []Value) Value {
			return strconv.Quote(args[0].(string))
		},
		"strconv.Itoa": func(p *Path, th *Thread, fr *Frame, args []Value) Value {
			t := args[0].(*Term)
			if !t.IsConst() {
				return "<int>"
			}
			return strconv.FormatInt(t.SVal(), 10)
		},
		"strconv.FormatInt": func(p *Path, th *Thread, fr *Frame, args []Value) Value {
			t := args[0].(*Term)
			if !t.IsConst() {
				return "<int>"
			}
			return strconv.FormatInt(t.SVal(), int(p.concreteInt(args[1], "base")))
		},
		"strings.Split": func(p *Path, th *Thread, fr *Frame, args []Value) Value {
			parts := strings.Split(args[0].(string), args[1].(string))
			a := make([]Value, len(parts))
			for i, s := range parts {
				a[i] = s
			}
			return Slice{a: a}
		},
		"strings.ReplaceAll": func(p *Path, th *Thread, fr *Frame, args []Value) Value {
			return strings.ReplaceAll(args[0].(string), args[1].(string), args[2].(string))
		},
		"strings.IndexByte": func(p *Path, th *Thread, fr *Frame, args []Value) Value {
			return p.mkIntT(int64(strings.IndexByte(args[0].(string), byte(p.concreteInt(args[1], "byte")))))
		},
		"strings.HasPrefix": func(p *Path, th *Thread, fr *Frame, args []Value) Value {
			return p.tt.Bool(strings.HasPrefix(args[0].(string), args[1].(string)))
		},
		"strings.Join": func(p *Path, th *Thread, fr *Frame, args []Value) Value {
			var parts []string
			for _, v := range args[0].(Slice).a {
				parts = append(parts, v.(string))
			}
			return strings.Join(parts, args[1].(string))
		},
		"path.Join": func(p *Path, th *Thread, fr *Frame, args []Value) Value {
			var parts []string
			for _, v := range args[0].(Slice).a {
				parts = append(parts, v.(string))
			}
			return strings.Join(parts, "/")
		},
		"math.Pow": func(p *Path, th *Thread, fr *Frame, args []Value) Value {
			return math.Pow(args[0].(float64), args[1].(float64))
		},
		"math.Max": func(p *Path, th *Thread, fr *Frame, args []Value) Value {
			return math.Max(args[0].(float64), args[1].(float64))
		},
		"math.Round": func(p *Path, th *Thread, fr *Frame, args []Value) Value { return math.Round(args[0].(float64)) },
		"math.Floor": func(p *Path, th *Thread, fr *Frame, args []Value) Value { return math.Floor(args[0].(float64)) },
	}
	registerSyncIntrinsics()
	registerTimeIntrinsics()
	registerGobIntrinsics()
	registerNetIntrinsics()
}

func intrNop(p *Path, th *Thread, fr *Frame, args []Value) Value { return nil }
func intrNopTuple2(p *Path, th *Thread, fr *Frame, args []Value) Value {
	return Tuple{p.mkIntT(0), Iface{}}
}

func (p *Path) nativeFallback(fn *ssa.Function) intrinsicFunc {
	return nil
}

// describe renders a value for verifPrint / formatting; symbolic leaves print as terms.
func (p *Path) describe(v Value) string {
	if i, ok := v.(Iface); ok {
		if i.t == nil {
			return "<nil>"
		}
		switch x := i.v.(type) {
		case string:
			return x
		case *Term:
			if x.IsConst() {
				if x.w == 0 {
					return fmt.Sprint(x.val == 1)
				}
				if b, ok := i.t.Underlying().(*types.Basic); ok && !isSigned(b) {
					return fmt.Sprint(x.val)
				}
				return fmt.Sprint(x.SVal())
			}
			return termStr(x, 3)
		case *ExtError:
			return x.msg
		}
		return fmt.Sprintf("<%s>", i.t)
	}
	return valStr(v)
}

func (p *Path) sprint(args []Value, sep string) string {
	var parts []string
	for _, a := range args {
		parts = append(parts, p.describe(a))
	}
	return strings.Join(parts, sep)
}

var verifLog = os.Getenv("VERIF_LOG") != ""

func intrSprintf(p *Path, th *Thread, fr *Frame, args []Value) Value {
	format := args[0].(string)
	vals := args[1].(Slice).a
	allConcrete := true
	for _, v := range vals {
		i := v.(Iface)
		switch x := i.v.(type) {
		case string:
		case *Term:
			if !x.IsConst() {
				allConcrete = false
			}
		default:
			allConcrete = false
		}
	}
	if allConcrete {
		var goargs []any
		for _, v := range vals {
			i := v.(Iface)
			switch x := i.v.(type) {
			case string:
				goargs = append(goargs, x)
			case *Term:
				if x.w == 0 {
					goargs = append(goargs, x.val == 1)
				} else if b, ok := i.t.Underlying().(*types.Basic); ok && !isSigned(b) {
					goargs = append(goargs, x.val)
				} else {
					goargs = append(goargs, x.SVal())
				}
			}
		}
		return fmt.Sprintf(format, goargs...)
	}
	return format + "|" + p.sprint(vals, ",")
}

func intrErrorf(p *Path, th *Thread, fr *Frame, args []Value) Value {
	format := args[0].(string)
	vals := args[1].(Slice).a
	var wrapped []Value
	if strings.Contains(format, "%w") {
		// find which verbs are %w
		vi := 0
		for i := 0; i < len(format); i++ {
			if format[i] != '%' {
				continue
			}
			if i+1 < len(format) && format[i+1] == '%' {
				i++
				continue
			}
			j := i + 1
			for j < len(format) && strings.ContainsRune("+-# 0123456789.", rune(format[j])) {
				j++
			}
			if j < len(format) {
				if format[j] == 'w' && vi < len(vals) {
					if w, ok := vals[vi].(Iface); ok && w.t != nil {
						wrapped = append(wrapped, w)
					}
				}
				vi++
			}
			i = j
		}
	}
	msg := format
	for _, w := range wrapped {
		if e, ok := w.(Iface).v.(*ExtError); ok {
			msg = strings.Replace(msg, "%w", e.msg, 1)
		}
	}
	return mkExtErr(msg, wrapped...)
}

func (p *Path) errUnwrap1(th *Thread, fr *Frame, err Iface) Value {
	if err.t == nil {
		return Iface{}
	}
	if e, ok := err.v.(*ExtError); ok {
		if len(e.wrapped) == 1 {
			return e.wrapped[0]
		}
		return Iface{}
	}
	if m := p.safeLookup(err.t, "Unwrap"); m != nil {
		if m.Signature.Results().Len() == 1 {
			if _, isSlice := m.Signature.Results().At(0).Type().Underlying().(*types.Slice); !isSlice {
				return p.call(th, fr, m, []Value{err.v})
			}
		}
	}
	return Iface{}
}

func (p *Path) errorsIs(th *Thread, fr *Frame, err, target Iface, depth int) bool {
	if depth > 50 {
		return false
	}
	if err.t == nil {
		return target.t == nil
	}
	if target.t == nil {
		return false
	}
	if types.Identical(err.t, target.t) || (err.t == extErrorType && target.t == extErrorType) {
		if types.Comparable(err.t) || err.t == extErrorType {
			eq := p.equals(err.v, target.v)
			if p.decide(eq) {
				return true
			}
		}
	}
	if e, ok := err.v.(*ExtError); ok {
		for _, w := range e.wrapped {
			if p.errorsIs(th, fr, w.(Iface), target, depth+1) {
				return true
			}
		}
		return false
	}
	if m := p.safeLookup(err.t, "Is"); m != nil {
		r := p.call(th, fr, m, []Value{err.v, target})
		if p.decide(r.(*Term)) {
			return true
		}
	}
	if m := p.safeLookup(err.t, "Unwrap"); m != nil {
		r := p.call(th, fr, m, []Value{err.v})
		switch r := r.(type) {
		case Iface:
			return p.errorsIs(th, fr, r, target, depth+1)
		case Slice:
			for _, w := range r.a {
				if p.errorsIs(th, fr, w.(Iface), target, depth+1) {
					return true
				}
			}
		}
	}
	return false
}

func (p *Path) timeValue() Value {
	// value delivered on timer channels: a time.Time; content irrelevant
	if tp := p.e.pkgs["time"]; tp != nil {
		if tm := tp.Type("Time"); tm != nil {
			return p.e.zero(p.tt, tm.Type())
		}
	}
	return Struct{}
}

func (e *Engine) crossQuery(p *Path, extra *Term) {}
