package main

import (
	"fmt"
	"go/constant"
	"go/token"
	"go/types"
	"math"
	"strings"
	"unicode/utf8"

	"golang.org/x/tools/go/ssa"
)

func constantStringVal(c *ssa.Const) string {
	if c.Value.Kind() == constant.String {
		return constant.StringVal(c.Value)
	}
	return string(rune(c.Int64()))
}

func intInfo(t types.Type) (bits int, signed bool, ok bool) {
	b, isB := t.Underlying().(*types.Basic)
	if !isB || b.Info()&types.IsInteger == 0 {
		return 0, false, false
	}
	return intWidth(b), isSigned(b), true
}

func nilDeref() targetPanic {
	return targetPanic{mkExtErr("runtime error: invalid memory address or nil pointer dereference")}
}

func (p *Path) unop(fr *Frame, instr *ssa.UnOp, x Value) Value {
	tt := p.tt
	switch instr.Op {
	case token.ARROW:
		ch := x.(*ChanObj)
		v, ok := p.chanRecv(fr.th, ch, p.e.zero(tt, instr.X.Type().Underlying().(*types.Chan).Elem()))
		if !instr.CommaOk {
			return v
		}
		return Tuple{v, tt.Bool(ok)}
	case token.SUB:
		switch x := x.(type) {
		case *Term:
			if p.e.intMode {
				bits, signed, _ := intInfo(instr.X.Type())
				return tt.WrapInt(tt.Un(ONeg, x), bits, signed)
			}
			return tt.Un(ONeg, x)
		case float64:
			return -x
		}
	case token.MUL:
		ptr := x.(*Value)
		if ptr == nil {
			panic(nilDeref())
		}
		return load(ptr)
	case token.NOT:
		return tt.Not(x.(*Term))
	case token.XOR:
		t := x.(*Term)
		if p.e.intMode {
			bits, signed, _ := intInfo(instr.X.Type())
			// ^x == -x-1 (signed) or 2^k-1-x (unsigned)
			if signed {
				return tt.binInt(OSub, tt.binInt(OSub, tt.IntConst(0), t), tt.IntConst(1))
			}
			if bits < 63 {
				return tt.binInt(OSub, tt.IntConst(int64(mask(bits))), t)
			}
			p.unsupported("^ on uint64 in int mode")
		}
		return tt.Un(OBNot, t)
	}
	panic(fmt.Sprintf("invalid unary op %s %T", instr.Op, x))
}

func (p *Path) binop(op token.Token, t types.Type, x, y Value) Value {
	tt := p.tt
	switch x := x.(type) {
	case *Term:
		yt, ok := y.(*Term)
		if !ok {
			break
		}
		if x.w == 0 { // bool
			switch op {
			case token.EQL:
				return tt.Eq(x, yt)
			case token.NEQ:
				return tt.Not(tt.Eq(x, yt))
			}
			break
		}
		bits, signed, _ := intInfo(t)
		if p.e.intMode {
			return p.binopInt(op, bits, signed, x, yt)
		}
		switch op {
		case token.ADD:
			return tt.Bin(OAdd, x, yt)
		case token.SUB:
			return tt.Bin(OSub, x, yt)
		case token.MUL:
			return tt.Bin(OMul, x, yt)
		case token.QUO, token.REM:
			if p.decide(tt.Eq(yt, tt.Const(yt.w, 0))) {
				panic(targetPanic{mkExtErr("runtime error: integer divide by zero")})
			}
			var o Op
			switch {
			case op == token.QUO && signed:
				o = OSDiv
			case op == token.QUO:
				o = OUDiv
			case signed:
				o = OSRem
			default:
				o = OURem
			}
			return tt.Bin(o, x, yt)
		case token.AND:
			return tt.Bin(OBAnd, x, yt)
		case token.OR:
			return tt.Bin(OBOr, x, yt)
		case token.XOR:
			return tt.Bin(OBXor, x, yt)
		case token.AND_NOT:
			return tt.Bin(OBAnd, x, tt.Un(OBNot, yt))
		case token.SHL, token.SHR:
			cnt := yt
			w := x.w
			var big *Term // condition: count >= w (beyond representable after width change)
			if cnt.w > w {
				big = tt.Not(tt.Cmp(OULt, cnt, tt.Const(cnt.w, uint64(w))))
				cnt = tt.Extract(cnt, w-1, 0)
			} else if cnt.w < w {
				cnt = tt.Zext(cnt, w)
			}
			var r *Term
			switch {
			case op == token.SHL:
				r = tt.Bin(OShl, x, cnt)
			case signed:
				r = tt.Bin(OAShr, x, cnt)
			default:
				r = tt.Bin(OLShr, x, cnt)
			}
			if big != nil && !big.IsFalse() {
				var fill *Term
				if op == token.SHR && signed {
					fill = tt.Bin(OAShr, x, tt.Const(w, uint64(w-1)))
				} else {
					fill = tt.Const(w, 0)
				}
				r = tt.Ite(big, fill, r)
			}
			return r
		case token.EQL:
			return tt.Eq(x, yt)
		case token.NEQ:
			return tt.Not(tt.Eq(x, yt))
		case token.LSS:
			if signed {
				return tt.Cmp(OSLt, x, yt)
			}
			return tt.Cmp(OULt, x, yt)
		case token.LEQ:
			if signed {
				return tt.Cmp(OSLe, x, yt)
			}
			return tt.Cmp(OULe, x, yt)
		case token.GTR:
			if signed {
				return tt.Cmp(OSLt, yt, x)
			}
			return tt.Cmp(OULt, yt, x)
		case token.GEQ:
			if signed {
				return tt.Cmp(OSLe, yt, x)
			}
			return tt.Cmp(OULe, yt, x)
		}
	case string:
		ys := y.(string)
		switch op {
		case token.ADD:
			return x + ys
		case token.EQL:
			return tt.Bool(x == ys)
		case token.NEQ:
			return tt.Bool(x != ys)
		case token.LSS:
			return tt.Bool(x < ys)
		case token.LEQ:
			return tt.Bool(x <= ys)
		case token.GTR:
			return tt.Bool(x > ys)
		case token.GEQ:
			return tt.Bool(x >= ys)
		}
	case float64:
		yf := y.(float64)
		f32 := false
		if b, ok := t.Underlying().(*types.Basic); ok && b.Kind() == types.Float32 {
			f32 = true
		}
		rnd := func(v float64) Value {
			if f32 {
				return float64(float32(v))
			}
			return v
		}
		switch op {
		case token.ADD:
			return rnd(x + yf)
		case token.SUB:
			return rnd(x - yf)
		case token.MUL:
			return rnd(x * yf)
		case token.QUO:
			return rnd(x / yf)
		case token.EQL:
			return tt.Bool(x == yf)
		case token.NEQ:
			return tt.Bool(x != yf)
		case token.LSS:
			return tt.Bool(x < yf)
		case token.LEQ:
			return tt.Bool(x <= yf)
		case token.GTR:
			return tt.Bool(x > yf)
		case token.GEQ:
			return tt.Bool(x >= yf)
		}
	}
	switch op {
	case token.EQL:
		return p.equals(x, y)
	case token.NEQ:
		return tt.Not(p.equals(x, y))
	}
	panic(fmt.Sprintf("invalid binary op: %T %s %T", x, op, y))
}

// goQuoRem computes Go's truncated quotient and remainder on Int-sorted terms (y != 0 assumed).
func (p *Path) goQuoRem(x, y *Term) (*Term, *Term) {
	tt := p.tt
	zero := tt.IntConst(0)
	if x.hasRange && x.lo >= 0 {
		// for a non-negative dividend Go's truncated division coincides with SMT-LIB div/mod
		return tt.binInt(OIDiv, x, y), tt.binInt(OIMod, x, y)
	}
	xneg := tt.Cmp(OSLt, x, zero)
	nx := tt.binInt(OSub, zero, x)
	q := tt.Ite(xneg, tt.binInt(OSub, zero, tt.binInt(OIDiv, nx, y)), tt.binInt(OIDiv, x, y))
	r := tt.Ite(xneg, tt.binInt(OSub, zero, tt.binInt(OIMod, nx, y)), tt.binInt(OIMod, x, y))
	if x.hasRange {
		m := max(abs64(x.lo), abs64(x.hi))
		if !q.hasRange {
			q.lo, q.hi, q.hasRange = -m, m, true
		}
		if !r.hasRange {
			r.lo, r.hi, r.hasRange = -m, m, true
		}
	}
	return q, r
}

func (p *Path) binopInt(op token.Token, bits int, signed bool, x, y *Term) Value {
	tt := p.tt
	wrap := func(t *Term) *Term { return tt.WrapInt(t, bits, signed) }
	switch op {
	case token.ADD:
		return wrap(tt.binInt(OAdd, x, y))
	case token.SUB:
		return wrap(tt.binInt(OSub, x, y))
	case token.MUL:
		return wrap(tt.binInt(OMul, x, y))
	case token.QUO, token.REM:
		if p.decide(tt.Eq(y, tt.IntConst(0))) {
			panic(targetPanic{mkExtErr("runtime error: integer divide by zero")})
		}
		q, r := p.goQuoRem(x, y)
		if op == token.QUO {
			return wrap(q)
		}
		return wrap(r)
	case token.EQL:
		return tt.Eq(x, y)
	case token.NEQ:
		return tt.Not(tt.Eq(x, y))
	case token.LSS:
		return tt.Cmp(OSLt, x, y)
	case token.LEQ:
		return tt.Cmp(OSLe, x, y)
	case token.GTR:
		return tt.Cmp(OSLt, y, x)
	case token.GEQ:
		return tt.Cmp(OSLe, y, x)
	case token.SHL:
		if y.IsConst() && int64(y.val) >= 0 && int64(y.val) < 62 {
			return wrap(tt.binInt(OMul, x, tt.IntConst(int64(1)<<uint(y.val))))
		}
	case token.SHR:
		if y.IsConst() && int64(y.val) >= 0 && int64(y.val) < 62 {
			return wrap(tt.binInt(OIDiv, x, tt.IntConst(int64(1)<<uint(y.val))))
		}
	}
	// bit-level operation: bridge through bit-vectors
	w := bits
	bx, by := tt.Int2BV(x, w), tt.Int2BV(y, w)
	var r *Term
	switch op {
	case token.AND:
		r = tt.Bin(OBAnd, bx, by)
	case token.OR:
		r = tt.Bin(OBOr, bx, by)
	case token.XOR:
		r = tt.Bin(OBXor, bx, by)
	case token.AND_NOT:
		r = tt.Bin(OBAnd, bx, tt.Un(OBNot, by))
	case token.SHL:
		r = tt.Bin(OShl, bx, by)
	case token.SHR:
		if signed {
			r = tt.Bin(OAShr, bx, by)
		} else {
			r = tt.Bin(OLShr, bx, by)
		}
	default:
		panic(fmt.Sprintf("binopInt: op %s", op))
	}
	return tt.BV2Int(r, signed)
}

// equals implements Go == on engine values.
func (p *Path) equals(x, y Value) *Term {
	tt := p.tt
	switch x := x.(type) {
	case *Term:
		return tt.Eq(x, y.(*Term))
	case string:
		return tt.Bool(x == y.(string))
	case float64:
		return tt.Bool(x == y.(float64))
	case *Value:
		return tt.Bool(x == y.(*Value))
	case *ChanObj:
		return tt.Bool(x == y.(*ChanObj))
	case *MapObj:
		return tt.Bool(x == y.(*MapObj))
	case *ExtError:
		ye, ok := y.(*ExtError)
		return tt.Bool(ok && x == ye)
	case *Opaque:
		yo, ok := y.(*Opaque)
		return tt.Bool(ok && x == yo)
	case Iface:
		yi := y.(Iface)
		if x.t == nil || yi.t == nil {
			return tt.Bool(x.t == nil && yi.t == nil)
		}
		if !types.Identical(x.t, yi.t) {
			return tt.Bool(false)
		}
		return p.equals(x.v, yi.v)
	case Struct:
		ys := y.(Struct)
		r := tt.Bool(true)
		for i := range x {
			r = tt.And(r, p.equals(x[i], ys[i]))
		}
		return r
	case Array:
		ya := y.(Array)
		r := tt.Bool(true)
		for i := range x {
			r = tt.And(r, p.equals(x[i], ya[i]))
		}
		return r
	case Slice:
		ys := y.(Slice)
		if x.a == nil || ys.a == nil {
			return tt.Bool(x.a == nil && ys.a == nil)
		}
		p.unsupported("slice comparison")
	case *Closure:
		return tt.Bool(isNilFunc(x) && isNilFunc(y))
	case *ssa.Function:
		return tt.Bool(false)
	case nil:
		return tt.Bool(y == nil)
	}
	panic(fmt.Sprintf("equals: unhandled %T vs %T", x, y))
}

func isNilFunc(v Value) bool {
	switch v := v.(type) {
	case *Closure:
		return v == nil
	case *ssa.Function:
		return v == nil
	}
	return false
}

func (p *Path) conv(tDst, tSrc types.Type, x Value) Value {
	tt := p.tt
	ut_src := tSrc.Underlying()
	ut_dst := tDst.Underlying()
	switch ut_src := ut_src.(type) {
	case *types.Pointer:
		return x
	case *types.Slice:
		// []byte or []rune -> string
		s := x.(Slice)
		switch ut_src.Elem().Underlying().(*types.Basic).Kind() {
		case types.Byte:
			if _, ok := ut_dst.(*types.Basic); ok {
				b := make([]byte, len(s.a))
				for i, e := range s.a {
					b[i] = byte(p.concreteInt(e, "byte in string conversion"))
				}
				return string(b)
			}
			return x
		case types.Rune:
			if _, ok := ut_dst.(*types.Basic); ok {
				r := make([]rune, len(s.a))
				for i, e := range s.a {
					r[i] = rune(p.concreteInt(e, "rune in string conversion"))
				}
				return string(r)
			}
			return x
		}
		return x
	case *types.Basic:
		dst, ok := ut_dst.(*types.Basic)
		if !ok {
			if ds, ok := ut_dst.(*types.Slice); ok && ut_src.Info()&types.IsString != 0 {
				str := x.(string)
				switch ds.Elem().Underlying().(*types.Basic).Kind() {
				case types.Byte:
					a := make([]Value, len(str))
					for i := 0; i < len(str); i++ {
						a[i] = p.mkInt(types.Typ[types.Uint8], int64(str[i]))
					}
					return Slice{a: a}
				case types.Rune:
					var a []Value
					for _, r := range str {
						a = append(a, p.mkInt(types.Typ[types.Int32], int64(r)))
					}
					if a == nil {
						a = []Value{}
					}
					return Slice{a: a}
				}
			}
			if _, ok := ut_dst.(*types.Pointer); ok {
				return x // unsafe.Pointer -> *T
			}
			break
		}
		if ut_src.Kind() == types.UnsafePointer {
			return x
		}
		sInfo, dInfo := ut_src.Info(), dst.Info()
		switch {
		case sInfo&types.IsInteger != 0 && dInfo&types.IsInteger != 0:
			t := x.(*Term)
			if p.e.intMode {
				return tt.WrapInt(t, intWidth(dst), isSigned(dst))
			}
			dw, sw := intWidth(dst), intWidth(ut_src)
			switch {
			case dw < sw:
				return tt.Extract(t, dw-1, 0)
			case dw > sw:
				if isSigned(ut_src) {
					return tt.Sext(t, dw)
				}
				return tt.Zext(t, dw)
			}
			return t
		case sInfo&types.IsInteger != 0 && dInfo&types.IsFloat != 0:
			t := x.(*Term)
			if !t.IsConst() {
				p.unsupported("int->float conversion of symbolic value")
			}
			var f float64
			if isSigned(ut_src) || p.e.intMode {
				f = float64(t.SVal())
			} else {
				f = float64(t.val)
			}
			if dst.Kind() == types.Float32 {
				f = float64(float32(f))
			}
			return f
		case sInfo&types.IsFloat != 0 && dInfo&types.IsInteger != 0:
			f := x.(float64)
			var iv int64
			if isSigned(dst) {
				switch intWidth(dst) {
				case 8:
					iv = int64(int8(f))
				case 16:
					iv = int64(int16(f))
				case 32:
					iv = int64(int32(f))
				default:
					iv = int64(f)
				}
			} else {
				switch intWidth(dst) {
				case 8:
					iv = int64(uint8(f))
				case 16:
					iv = int64(uint16(f))
				case 32:
					iv = int64(uint32(f))
				default:
					iv = int64(uint64(f))
				}
			}
			return p.mkInt(dst, iv)
		case sInfo&types.IsFloat != 0 && dInfo&types.IsFloat != 0:
			f := x.(float64)
			if dst.Kind() == types.Float32 {
				return float64(float32(f))
			}
			return f
		case sInfo&types.IsInteger != 0 && dInfo&types.IsString != 0:
			return string(rune(p.concreteInt(x, "rune->string")))
		case sInfo&types.IsString != 0 && dInfo&types.IsString != 0:
			return x
		case sInfo&types.IsBoolean != 0 && dInfo&types.IsBoolean != 0:
			return x
		}
	}
	panic(fmt.Sprintf("unsupported conversion: %s -> %s, value %T", tSrc, tDst, x))
}

func (p *Path) sliceOp(instr *ssa.Slice, x, lo, hi, max Value) Value {
	var a []Value
	var length, capacity int
	isStr := false
	var str string
	switch x := x.(type) {
	case string:
		isStr = true
		str = x
		length, capacity = len(x), len(x)
	case Slice:
		a = x.a
		length, capacity = len(a), cap(a)
	case *Value:
		if x == nil {
			panic(nilDeref())
		}
		a = (*x).(Array)
		length, capacity = len(a), len(a)
	default:
		panic(fmt.Sprintf("slice of %T", x))
	}
	l := 0
	if lo != nil {
		l = int(p.sliceBound(lo, capacity))
	}
	h := length
	if hi != nil {
		h = int(p.sliceBound(hi, capacity))
	}
	m := capacity
	if max != nil {
		m = int(p.sliceBound(max, capacity))
	}
	if l < 0 || l > h || h > m || m > capacity {
		panic(targetPanic{mkExtErr(fmt.Sprintf("runtime error: slice bounds out of range [%d:%d:%d] with capacity %d", l, h, m, capacity))})
	}
	if isStr {
		return str[l:h]
	}
	if a == nil {
		return Slice{}
	}
	return Slice{a: a[l:h:m]}
}

// sliceBound resolves a slice bound; symbolic bounds are case-split over 0..capacity.
func (p *Path) sliceBound(v Value, capacity int) int64 {
	t := v.(*Term)
	if t.IsConst() {
		return t.SVal()
	}
	for i := 0; i <= capacity; i++ {
		if p.decide(p.tt.Eq(t, p.tt.Const(t.w, uint64(i)))) {
			return int64(i)
		}
	}
	return -1
}

// ---------- maps ----------

func (p *Path) hasSymbolic(v Value) bool {
	_, ok := keyString(v)
	return !ok
}

// mapFind returns the entry equal to key, forking on symbolic equalities.
func (p *Path) mapFind(m *MapObj, key Value) *mapEntry {
	if m == nil {
		return nil
	}
	ks, concrete := keyString(key)
	if concrete && !m.hasSym {
		if e, ok := m.index[ks]; ok && !e.deleted {
			return e
		}
		return nil
	}
	for _, e := range m.entries {
		if e.deleted {
			continue
		}
		if p.e.verbose || p.e.debugSites {
			p.curSite = "mapFind entry=" + valStr(e.k) + " key=" + valStr(key)
		}
		if p.decide(p.equals(e.k, key)) {
			return e
		}
	}
	return nil
}

func (p *Path) mapSet(m *MapObj, key, val Value) {
	if e := p.mapFind(m, key); e != nil {
		e.v = copyVal(val)
		return
	}
	e := &mapEntry{k: copyVal(key), v: copyVal(val)}
	m.entries = append(m.entries, e)
	m.n++
	if ks, concrete := keyString(key); concrete {
		m.index[ks] = e
	} else {
		m.hasSym = true
	}
}

func (p *Path) mapDelete(m *MapObj, key Value) {
	if e := p.mapFind(m, key); e != nil {
		e.deleted = true
		m.n--
		if ks, concrete := keyString(e.k); concrete {
			delete(m.index, ks)
		}
	}
}

func (p *Path) lookup(instr *ssa.Lookup, x, idx Value) Value {
	tt := p.tt
	switch x := x.(type) {
	case *MapObj:
		var v Value
		ok := false
		if e := p.mapFind(x, idx); e != nil {
			v, ok = copyVal(e.v), true
		} else {
			v = p.e.zero(tt, instr.X.Type().Underlying().(*types.Map).Elem())
		}
		if instr.CommaOk {
			return Tuple{v, tt.Bool(ok)}
		}
		return v
	case string:
		i := p.indexCheck(idx.(*Term), len(x), instr.Index.Type())
		return p.mkInt(types.Typ[types.Uint8], int64(x[i]))
	}
	panic(fmt.Sprintf("lookup in %T", x))
}

// ---------- iteration ----------

type iter interface {
	next(p *Path) Tuple
}

type mapIter struct {
	m       *MapObj
	entries []*mapEntry
	i       int
}

func (it *mapIter) next(p *Path) Tuple {
	for it.i < len(it.entries) {
		e := it.entries[it.i]
		it.i++
		if e.deleted {
			continue
		}
		return Tuple{p.tt.Bool(true), copyVal(e.k), copyVal(e.v)}
	}
	return Tuple{p.tt.Bool(false), nil, nil}
}

type stringIter struct {
	s   string
	pos int
}

func (it *stringIter) next(p *Path) Tuple {
	if it.pos >= len(it.s) {
		return Tuple{p.tt.Bool(false), nil, nil}
	}
	r, sz := utf8.DecodeRuneInString(it.s[it.pos:])
	k := p.mkIntT(int64(it.pos))
	it.pos += sz
	return Tuple{p.tt.Bool(true), k, p.mkInt(types.Typ[types.Int32], int64(r))}
}

func (p *Path) rangeIter(x Value, t types.Type) iter {
	switch x := x.(type) {
	case *MapObj:
		if x == nil {
			return &mapIter{}
		}
		entries := x.liveEntries()
		if p.e.cfg.PermuteMaps && len(entries) > 1 && len(entries) <= 3 && strings.HasSuffix(t.String(), "ArchetypeResourceHandle]bool") {
			// Go randomises map iteration: the order over the dirty-handle set is a nondeterministic choice.
			// One permutation is chosen per (map, key set) and reused while the key set is unchanged.
			ks := ""
			for _, en := range entries {
				s, _ := keyString(en.k)
				ks += s
			}
			type permKey struct {
				m  *MapObj
				ks string
			}
			pk := permKey{x, ks}
			order, ok := p.side[pk].([]int)
			if !ok {
				var idx []int
				for i, en := range entries {
					// bookkeeping variables (.pc, .stack) are plain locals: their position is irrelevant, keep them first
					if ksn, _ := en.k.(string); ksn == ".pc" || ksn == ".stack" {
						order = append(order, i)
					} else {
						idx = append(idx, i)
					}
				}
				for len(idx) > 0 {
					k := p.chooseNCat(len(idx), "permute")
					order = append(order, idx[k])
					idx = append(idx[:k], idx[k+1:]...)
				}
				p.side[pk] = order
			}
			perm := make([]*mapEntry, 0, len(entries))
			for _, i := range order {
				perm = append(perm, entries[i])
			}
			entries = perm
		}
		return &mapIter{m: x, entries: entries}
	case string:
		return &stringIter{s: x}
	}
	panic(fmt.Sprintf("cannot range over %T", x))
}

// ---------- type assertions ----------

func (p *Path) implements(t types.Type, iface *types.Interface) bool {
	if t == extErrorType {
		for i := 0; i < iface.NumMethods(); i++ {
			switch iface.Method(i).Name() {
			case "Error", "Unwrap":
			default:
				return false
			}
		}
		return true
	}
	if ot, ok := t.(*opaqueType); ok {
		for i := 0; i < iface.NumMethods(); i++ {
			if ot.method(iface.Method(i).Name()) == nil {
				return false
			}
		}
		return true
	}
	return types.Implements(t, iface)
}

func (p *Path) typeAssert(instr *ssa.TypeAssert, itf Iface) Value {
	tt := p.tt
	var v Value
	ok := false
	if idst, isI := instr.AssertedType.Underlying().(*types.Interface); isI {
		if itf.t != nil && p.implements(itf.t, idst) {
			v, ok = itf, true
		}
	} else if itf.t != nil && types.Identical(itf.t, instr.AssertedType) {
		v, ok = copyVal(itf.v), true
	}
	if !ok {
		if instr.CommaOk {
			return Tuple{p.e.zero(tt, instr.AssertedType), tt.Bool(false)}
		}
		from := "nil"
		if itf.t != nil {
			from = itf.t.String()
		}
		panic(targetPanic{mkExtErr(fmt.Sprintf("interface conversion: interface is %s, not %s", from, instr.AssertedType))})
	}
	if instr.CommaOk {
		return Tuple{v, tt.Bool(true)}
	}
	return v
}

// ---------- channels ----------

func (p *Path) chanSend(th *Thread, ch *ChanObj, v Value) {
	if ch == nil {
		p.sched.syncPoint(th, func() bool { return false })
	}
	p.sched.selectOp(th, []selCase{{ch: ch, send: true, val: copyVal(v)}}, false, nil)
}

func (p *Path) chanRecv(th *Thread, ch *ChanObj, zero Value) (Value, bool) {
	if ch == nil {
		p.sched.syncPoint(th, func() bool { return false })
	}
	_, v, ok := p.sched.selectOp(th, []selCase{{ch: ch}}, false, []Value{zero})
	if !ok {
		return zero, false
	}
	return v, true
}

func (p *Path) selectInstr(fr *Frame, instr *ssa.Select) {
	tt := p.tt
	var cases []selCase
	var zeros []Value
	for _, st := range instr.States {
		ch, _ := fr.get(st.Chan).(*ChanObj)
		c := selCase{ch: ch}
		var z Value
		if st.Dir == types.SendOnly {
			c.send = true
			c.val = copyVal(fr.get(st.Send))
		} else {
			z = p.e.zero(tt, st.Chan.Type().Underlying().(*types.Chan).Elem())
		}
		cases = append(cases, c)
		zeros = append(zeros, z)
	}
	idx, v, ok := p.sched.selectOp(fr.th, cases, !instr.Blocking, zeros)
	r := Tuple{p.mkIntT(int64(idx)), tt.Bool(ok && idx >= 0 && !cases[idx].send)}
	for i, st := range instr.States {
		if st.Dir == types.RecvOnly {
			if i == idx && ok {
				r = append(r, v)
			} else {
				r = append(r, zeros[i])
			}
		}
	}
	fr.set(instr, r)
}

// ---------- builtins ----------

func (p *Path) callBuiltin(th *Thread, caller *Frame, fn *ssa.Builtin, args []Value) Value {
	tt := p.tt
	switch fn.Name() {
	case "append":
		if len(args) == 1 {
			return args[0]
		}
		s := args[0].(Slice)
		var add []Value
		switch b := args[1].(type) {
		case string:
			for i := 0; i < len(b); i++ {
				add = append(add, p.mkInt(types.Typ[types.Uint8], int64(b[i])))
			}
		case Slice:
			add = b.a
		}
		if len(add) == 0 {
			return s
		}
		n := make([]Value, len(add))
		for i, v := range add {
			n[i] = copyVal(v)
		}
		return Slice{a: append(s.a, n...)}
	case "copy":
		dst := args[0].(Slice)
		var src []Value
		switch b := args[1].(type) {
		case string:
			for i := 0; i < len(b); i++ {
				src = append(src, p.mkInt(types.Typ[types.Uint8], int64(b[i])))
			}
		case Slice:
			src = b.a
		}
		n := min(len(dst.a), len(src))
		tmp := make([]Value, n)
		for i := 0; i < n; i++ {
			tmp[i] = copyVal(src[i])
		}
		copy(dst.a, tmp)
		return p.mkIntT(int64(n))
	case "close":
		p.sched.closeChan(th, args[0].(*ChanObj))
		return nil
	case "delete":
		if m := args[0].(*MapObj); m != nil {
			p.mapDelete(m, args[1])
		}
		return nil
	case "print", "println":
		return nil
	case "len":
		switch x := args[0].(type) {
		case string:
			return p.mkIntT(int64(len(x)))
		case Array:
			return p.mkIntT(int64(len(x)))
		case *Value:
			return p.mkIntT(int64(len((*x).(Array))))
		case Slice:
			return p.mkIntT(int64(len(x.a)))
		case *MapObj:
			if x == nil {
				return p.mkIntT(0)
			}
			return p.mkIntT(int64(x.n))
		case *ChanObj:
			if x == nil {
				return p.mkIntT(0)
			}
			return p.mkIntT(int64(len(x.buf)))
		}
		panic(fmt.Sprintf("len of %T", args[0]))
	case "cap":
		switch x := args[0].(type) {
		case Array:
			return p.mkIntT(int64(len(x)))
		case *Value:
			return p.mkIntT(int64(len((*x).(Array))))
		case Slice:
			return p.mkIntT(int64(cap(x.a)))
		case *ChanObj:
			if x == nil {
				return p.mkIntT(0)
			}
			return p.mkIntT(int64(x.cap))
		}
		panic(fmt.Sprintf("cap of %T", args[0]))
	case "min", "max":
		isMin := fn.Name() == "min"
		r := args[0]
		for _, a := range args[1:] {
			switch x := r.(type) {
			case *Term:
				y := a.(*Term)
				// signedness unknown here: treat via type of builtin signature
				sig := fn.Type().(*types.Signature)
				_, signed, _ := intInfo(sig.Params().At(0).Type())
				var lt *Term
				if signed || p.e.intMode {
					lt = tt.Cmp(OSLt, y, x)
				} else {
					lt = tt.Cmp(OULt, y, x)
				}
				if isMin {
					r = tt.Ite(lt, y, x)
				} else {
					r = tt.Ite(lt, x, y)
				}
			case float64:
				if isMin {
					r = math.Min(x, a.(float64))
				} else {
					r = math.Max(x, a.(float64))
				}
			case string:
				y := a.(string)
				if (isMin && y < x) || (!isMin && y > x) {
					r = y
				}
			}
		}
		return r
	case "clear":
		switch x := args[0].(type) {
		case *MapObj:
			if x != nil {
				x.entries = nil
				x.index = map[string]*mapEntry{}
				x.n = 0
				x.hasSym = false
			}
		default:
			p.unsupported("clear of %T", x)
		}
		return nil
	case "recover":
		if caller != nil && caller.caller != nil && caller.caller.panicking {
			caller.caller.panicking = false
			pv := caller.caller.panicVal
			caller.caller.panicVal = nil
			if tp, ok := pv.(targetPanic); ok {
				if _, isI := tp.v.(Iface); isI {
					return tp.v
				}
				return Iface{t: types.Typ[types.String], v: valStr(tp.v)}
			}
		}
		return Iface{}
	case "ssa:wrapnilchk":
		if isNilPtr(args[0]) {
			panic(nilDeref())
		}
		return args[0]
	}
	panic("unknown built-in: " + fn.Name())
}
