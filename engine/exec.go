package main

// SSA interpreter with symbolic scalar leaves (modelled on x/tools/go/ssa/interp).

import (
	"fmt"
	"go/token"
	"go/types"
	"strings"
	"sync"

	"golang.org/x/tools/go/ssa"
)

type targetPanic struct{ v Value } // a Go-level panic of the target program; v is an Iface

type deferred struct {
	fn    Value
	args  []Value
	instr *ssa.Defer
	tail  *deferred
}

type Frame struct {
	p         *Path
	th        *Thread
	caller    *Frame
	fn        *ssa.Function
	block     *ssa.BasicBlock
	prevBlock *ssa.BasicBlock
	env       []*[envChunk]Value
	info      *fnInfo
	locals    []Value
	defers    *deferred
	result    Value
	panicking bool
	panicVal  any
}

func (fr *Frame) get(key ssa.Value) Value {
	switch key := key.(type) {
	case nil:
		return nil
	case *ssa.Function:
		return key
	case *ssa.Builtin:
		return key
	case *ssa.Const:
		return fr.p.constValue(key)
	case *ssa.Global:
		return fr.p.globalAddr(key)
	}
	if i, ok := fr.info.idx[key]; ok {
		if c := fr.env[i>>envShift]; c != nil {
			return c[i&envMask]
		}
		return nil
	}
	panic(fmt.Sprintf("get: no value for %T: %v in %s", key, key.Name(), fr.fn))
}

func (p *Path) unsupported(format string, args ...any) {
	panic(inconclusive{"unsupported: " + fmt.Sprintf(format, args...)})
}

func (p *Path) constValue(c *ssa.Const) Value {
	tt := p.tt
	if c.Value == nil {
		return p.e.zero(tt, c.Type())
	}
	t := c.Type().Underlying()
	if b, ok := t.(*types.Basic); ok {
		info := b.Info()
		switch {
		case info&types.IsBoolean != 0:
			return tt.Bool(constantBool(c))
		case info&types.IsInteger != 0:
			if p.e.intMode {
				if isSigned(b) {
					return tt.IntConst(c.Int64())
				}
				return tt.IntConst(int64(c.Uint64()))
			}
			if isSigned(b) {
				return tt.Const(intWidth(b), uint64(c.Int64()))
			}
			return tt.Const(intWidth(b), c.Uint64())
		case info&types.IsFloat != 0:
			return c.Float64()
		case info&types.IsString != 0:
			return constantString(c)
		case info&types.IsComplex != 0:
			return c.Complex128()
		}
	}
	if _, ok := t.(*types.TypeParam); ok {
		p.unsupported("constant of type parameter")
	}
	panic(fmt.Sprintf("constValue: unexpected %v : %v", c, c.Type()))
}

func (p *Path) globalAddr(g *ssa.Global) *Value {
	if a, ok := p.globals[g]; ok {
		return a
	}
	// lazily created; interpreted packages get initialised on first touch
	if g.Pkg != nil && p.e.shouldInterpretPkg(g.Pkg.Pkg.Path()) {
		p.ensureInit(g.Pkg)
		if a, ok := p.globals[g]; ok {
			return a
		}
	}
	a := new(Value)
	*a = p.externalGlobalInit(g)
	p.globals[g] = a
	return a
}

// externalGlobalInit gives values to globals of packages that are not interpreted.
func (p *Path) externalGlobalInit(g *ssa.Global) Value {
	elem := g.Type().(*types.Pointer).Elem()
	name := g.String()
	if types.Identical(elem, types.Universe.Lookup("error").Type()) {
		key := "extglobal:" + name
		if v, ok := p.side[key]; ok {
			return v
		}
		msg := name
		switch name {
		case "io.EOF":
			msg = "EOF"
		case "io.ErrUnexpectedEOF":
			msg = "unexpected EOF"
		}
		v := mkExtErr(msg)
		p.side[key] = v
		return v
	}
	return p.e.zero(p.tt, elem)
}

// ensureInit runs the initialiser of an interpreted package (and its interpreted imports) once per path.
func (p *Path) ensureInit(pkg *ssa.Package) {
	key := "init:" + pkg.Pkg.Path()
	if _, ok := p.side[key]; ok {
		return
	}
	p.side[key] = true
	for _, m := range pkg.Members {
		if g, ok := m.(*ssa.Global); ok {
			if _, ok := p.globals[g]; !ok {
				a := new(Value)
				*a = p.e.zero(p.tt, g.Type().(*types.Pointer).Elem())
				p.globals[g] = a
			}
		}
	}
	for _, imp := range pkg.Pkg.Imports() {
		if p.e.shouldInterpretPkg(imp.Path()) {
			if ip := p.e.pkgs[imp.Path()]; ip != nil {
				p.ensureInit(ip)
			}
		}
	}
	if init := pkg.Func("init"); init != nil {
		p.e.ensureBuilt(init)
		th := p.sched.cur
		p.callSSA(th, nil, init, nil, nil)
	}
}

// runThreadBody runs body on th and maps engine-level panics to an end reason ("" = finished normally).
func (p *Path) runThreadBody(th *Thread, body func()) (reason string) {
	defer func() {
		r := recover()
		if r == nil {
			return
		}
		switch r := r.(type) {
		case killThread:
			reason = "killed"
			// the path was already finished by someone else
		case pathEnd:
			reason = r.reason
		case inconclusive:
			reason = r.reason
		case targetPanic:
			msg := p.panicString(r.v)
			p.obl++
			p.recordViolation("panic", "unexpected panic in "+th.name+": "+msg, p.model, "")
			reason = "panic"
		default:
			reason = fmt.Sprintf("unsupported: engine error: %v", r)
			if p.e.verbose {
				panic(r)
			}
		}
	}()
	body()
	return ""
}

func (p *Path) panicString(v Value) string {
	if i, ok := v.(Iface); ok {
		switch x := i.v.(type) {
		case *ExtError:
			return x.msg
		case string:
			return x
		}
		if i.t != nil {
			return "value of type " + i.t.String()
		}
	}
	return valStr(v)
}

// callFunction calls an *ssa.Function from the engine (entry points).
func (p *Path) callFunction(th *Thread, caller *Frame, fn *ssa.Function, args []Value) Value {
	if fn.Pkg != nil {
		p.ensureInit(fn.Pkg)
	}
	return p.call(th, caller, fn, args)
}

// call dispatches a call to a function value.
func (p *Path) call(th *Thread, caller *Frame, fn Value, args []Value) Value {
	switch fn := fn.(type) {
	case *ssa.Function:
		if fn == nil {
			panic(targetPanic{mkExtErr("runtime error: invalid memory address or nil pointer dereference")})
		}
		return p.callSSA(th, caller, fn, args, nil)
	case *Closure:
		if fn == nil {
			panic(targetPanic{mkExtErr("runtime error: invalid memory address or nil pointer dereference")})
		}
		return p.callSSA(th, caller, fn.fn, args, fn.env)
	case *ssa.Builtin:
		return p.callBuiltin(th, caller, fn, args)
	case *IntrinsicFn:
		return fn.f(p, th, caller, args)
	}
	panic(fmt.Sprintf("cannot call %T", fn))
}

var fnProfile map[*ssa.Function]int
var fnProfileMu sync.Mutex

type IntrinsicFn struct {
	name string
	f    func(p *Path, th *Thread, fr *Frame, args []Value) Value
}

func (e *Engine) fnName(fn *ssa.Function) string {
	if v, ok := e.fnNames.Load(fn); ok {
		return v.(string)
	}
	s := fn.String()
	e.fnNames.Store(fn, s)
	return s
}

func (p *Path) callSSA(th *Thread, caller *Frame, fn *ssa.Function, args []Value, env []Value) Value {
	name := p.e.fnName(fn)
	if strings.HasPrefix(fn.Name(), "verif") {
		if f, ok := harnessAPI[fn.Name()]; ok {
			return f(p, th, caller, args)
		}
	}
	if f, ok := intrinsics[name]; ok {
		p.intr[name]++
		if p.e.verbose || p.e.debugSites {
			p.curSite = "intrinsic " + name
			if caller != nil {
				p.curSite += " <- " + caller.fn.Name()
			}
		}
		return f(p, th, caller, args)
	}
	if fn.Origin() != nil {
		if f, ok := intrinsics[p.e.fnName(fn.Origin())]; ok {
			p.intr[p.e.fnName(fn.Origin())]++
			return f(p, th, caller, args)
		}
	}
	pkgPath := fnPkgPath(fn)
	if fn.Name() == "init" && fn.Pkg != nil && fn.Pkg.Func("init") == fn && !p.e.shouldInterpretPkg(pkgPath) {
		return nil // initialisers of packages that are modelled, not interpreted
	}
	interp := p.e.shouldInterpretPkg(pkgPath) || fn.Synthetic != "" && fn.Pkg == nil && fn.Origin() == nil || interpretStd[name]
	if !interp {
		if f := p.nativeFallback(fn); f != nil {
			p.intr[name]++
			return f(p, th, caller, args)
		}
		chain := ""
		for f, n := caller, 0; f != nil && n < 4; f, n = f.caller, n+1 {
			chain += " <- " + f.fn.Name()
		}
		p.unsupported("call to %s%s", name, chain)
	}
	if fn.Blocks == nil {
		p.e.ensureBuilt(fn)
		if fn.Blocks == nil {
			p.unsupported("no body for %s", name)
		}
	}
	if fn.Pkg != nil && p.e.shouldInterpretPkg(pkgPath) {
		p.ensureInit(fn.Pkg)
	}
	if th != nil {
		th.depth++
		if th.depth > 2000 {
			p.unsupported("call depth > 2000 in %s", name)
		}
		defer func() { th.depth-- }()
	}
	fr := &Frame{p: p, th: th, caller: caller, fn: fn}
	fr.info = p.e.fnInfoOf(fn)
	fr.env = make([]*[envChunk]Value, (fr.info.n+envChunk-1)>>envShift)
	fr.block = fn.Blocks[0]
	fr.locals = make([]Value, len(fn.Locals))
	for i, l := range fn.Locals {
		fr.locals[i] = p.e.zero(p.tt, l.Type().(*types.Pointer).Elem())
		fr.set(l, &fr.locals[i])
	}
	for i, prm := range fn.Params {
		fr.set(prm, args[i])
	}
	for i, fv := range fn.FreeVars {
		fr.set(fv, env[i])
	}
	if _, ok := p.funcs[name]; !ok {
		n := 0
		for _, b := range fn.Blocks {
			n += len(b.Instrs)
		}
		p.funcs[name] = n
	}
	for fr.block != nil {
		p.runFrame(fr)
	}
	return fr.result
}

// runFrame executes fr until it returns, handling panics and recovery.
func (p *Path) runFrame(fr *Frame) {
	defer func() {
		if fr.block == nil {
			return // normal return
		}
		r := recover()
		switch r.(type) {
		case nil:
			return
		case targetPanic:
		default:
			panic(r) // engine-level abort: do not run target defers
		}
		fr.panicking = true
		fr.panicVal = r
		fr.runDefers()
		fr.block = fr.fn.Recover
		if fr.block == nil {
			if res := fr.fn.Signature.Results(); res.Len() > 0 {
				fr.result = p.e.zero(p.tt, res)
			}
		}
	}()
	for {
		for _, instr := range fr.block.Instrs {
			p.steps++
			if fnProfile != nil {
				fnProfileMu.Lock()
				fnProfile[fr.fn]++
				fnProfileMu.Unlock()
			}
			if p.steps > p.e.cfg.MaxSteps {
				p.stepBudget()
			}
			if p.visitInstr(fr, instr) == kReturn {
				return
			}
		}
	}
}

func (p *Path) stepBudget() {
	if p.e.cfg.ExpectSteps {
		p.obl++
		p.recordViolation("steps", fmt.Sprintf("no termination within %d interpreter steps", p.e.cfg.MaxSteps), p.model, "")
		panic(pathEnd{"steps"})
	}
	panic(inconclusive{"budget: max_steps"})
}

func (fr *Frame) runDefer(d *deferred) {
	var ok bool
	defer func() {
		if !ok {
			r := recover()
			if _, isT := r.(targetPanic); !isT {
				panic(r)
			}
			fr.panicking = true
			fr.panicVal = r
		}
	}()
	fr.p.call(fr.th, fr, d.fn, d.args)
	ok = true
}

func (fr *Frame) runDefers() {
	for d := fr.defers; d != nil; d = d.tail {
		fr.runDefer(d)
	}
	fr.defers = nil
	if fr.panicking {
		panic(fr.panicVal)
	}
}

type continuation int

const (
	kNext continuation = iota
	kReturn
	kJump
)

func (p *Path) prepareCall(fr *Frame, call *ssa.CallCommon) (fn Value, args []Value) {
	v := fr.get(call.Value)
	if call.Method == nil {
		fn = v
	} else {
		recv := v.(Iface)
		if recv.t == nil {
			panic(targetPanic{mkExtErr("runtime error: invalid memory address or nil pointer dereference (method call on nil interface)")})
		}
		if f := p.lookupMethod(recv.t, call.Method); f != nil {
			fn = f
		} else {
			p.unsupported("method %s on %s", call.Method.Name(), recv.t)
		}
		args = append(args, recv.v)
	}
	for _, arg := range call.Args {
		args = append(args, fr.get(arg))
	}
	return
}

func (p *Path) lookupMethod(t types.Type, meth *types.Func) Value {
	if t == extErrorType {
		switch meth.Name() {
		case "Error":
			return &IntrinsicFn{name: "extError.Error", f: func(p *Path, th *Thread, fr *Frame, args []Value) Value {
				return args[0].(*ExtError).msg
			}}
		case "Unwrap":
			return &IntrinsicFn{name: "extError.Unwrap", f: func(p *Path, th *Thread, fr *Frame, args []Value) Value {
				e := args[0].(*ExtError)
				if len(e.wrapped) > 0 {
					return e.wrapped[0]
				}
				return Iface{}
			}}
		}
		return nil
	}
	if ot, ok := t.(*opaqueType); ok {
		return ot.method(meth.Name())
	}
	f := p.e.prog.LookupMethod(t, meth.Pkg(), meth.Name())
	if f == nil {
		return nil
	}
	return f
}

func (p *Path) visitInstr(fr *Frame, instr ssa.Instruction) continuation {
	tt := p.tt
	switch instr := instr.(type) {
	case *ssa.DebugRef:
	case *ssa.UnOp:
		fr.set(instr, p.unop(fr, instr, fr.get(instr.X)))
	case *ssa.BinOp:
		fr.set(instr, p.binop(instr.Op, instr.X.Type(), fr.get(instr.X), fr.get(instr.Y)))
	case *ssa.Call:
		fn, args := p.prepareCall(fr, &instr.Call)
		fr.set(instr, p.call(fr.th, fr, fn, args))
	case *ssa.ChangeInterface:
		fr.set(instr, fr.get(instr.X))
	case *ssa.ChangeType:
		fr.set(instr, fr.get(instr.X))
	case *ssa.Convert:
		fr.set(instr, p.conv(instr.Type(), instr.X.Type(), fr.get(instr.X)))
	case *ssa.SliceToArrayPointer:
		p.unsupported("SliceToArrayPointer")
	case *ssa.MakeInterface:
		fr.set(instr, Iface{t: instr.X.Type(), v: fr.get(instr.X)})
	case *ssa.Extract:
		fr.set(instr, fr.get(instr.Tuple).(Tuple)[instr.Index])
	case *ssa.Slice:
		fr.set(instr, p.sliceOp(instr, fr.get(instr.X), fr.get(instr.Low), fr.get(instr.High), fr.get(instr.Max)))
	case *ssa.Return:
		switch len(instr.Results) {
		case 0:
		case 1:
			fr.result = fr.get(instr.Results[0])
		default:
			res := make(Tuple, len(instr.Results))
			for i, r := range instr.Results {
				res[i] = fr.get(r)
			}
			fr.result = res
		}
		fr.block = nil
		return kReturn
	case *ssa.RunDefers:
		fr.runDefers()
	case *ssa.Panic:
		panic(targetPanic{fr.get(instr.X)})
	case *ssa.Send:
		ch := fr.get(instr.Chan).(*ChanObj)
		p.chanSend(fr.th, ch, fr.get(instr.X))
	case *ssa.Store:
		addr := fr.get(instr.Addr).(*Value)
		if addr == nil {
			panic(targetPanic{mkExtErr("runtime error: invalid memory address or nil pointer dereference")})
		}
		store(addr, fr.get(instr.Val))
	case *ssa.If:
		cond := fr.get(instr.Cond).(*Term)
		succ := 1
		if !cond.IsConst() {
			if p.e.verbose || p.e.debugSites {
				pos := p.e.prog.Fset.Position(instr.Cond.Pos())
				p.curSite = fmt.Sprintf("%s %s:%d", fr.fn.Name(), shortFile(pos.Filename), pos.Line)
			}
			k := loopKey{fr, instr}
			p.loopCnt[k]++
			if p.loopCnt[k] > p.unwind {
				p.unwindHit(fr, instr)
			}
		}
		if p.decide(cond) {
			succ = 0
		}
		fr.prevBlock, fr.block = fr.block, fr.block.Succs[succ]
		return kJump
	case *ssa.Jump:
		fr.prevBlock, fr.block = fr.block, fr.block.Succs[0]
		return kJump
	case *ssa.Defer:
		fn, args := p.prepareCall(fr, &instr.Call)
		fr.defers = &deferred{fn: fn, args: args, instr: instr, tail: fr.defers}
	case *ssa.Go:
		fn, args := p.prepareCall(fr, &instr.Call)
		name := "go"
		if f, ok := fn.(*ssa.Function); ok {
			name = f.Name()
		} else if c, ok := fn.(*Closure); ok {
			name = c.fn.Name()
		}
		p.sched.spawn(name, func(th *Thread) { p.call(th, nil, fn, args) })
	case *ssa.MakeChan:
		n := p.concreteInt(fr.get(instr.Size), "chan size")
		fr.set(instr, p.sched.newChan(int(n)))
	case *ssa.Alloc:
		var addr *Value
		if instr.Heap {
			addr = new(Value)
			fr.set(instr, addr)
		} else {
			addr = fr.get(instr).(*Value)
		}
		*addr = p.e.zero(tt, instr.Type().(*types.Pointer).Elem())
	case *ssa.MakeSlice:
		n := p.concreteInt(fr.get(instr.Cap), "slice cap")
		l := p.concreteInt(fr.get(instr.Len), "slice len")
		if n < 0 || l < 0 || l > n || n > 1<<20 {
			panic(targetPanic{mkExtErr("runtime error: makeslice: len out of range")})
		}
		a := make([]Value, n)
		tElt := instr.Type().Underlying().(*types.Slice).Elem()
		for i := range a {
			a[i] = p.e.zero(tt, tElt)
		}
		fr.set(instr, Slice{a: a[:l]})
	case *ssa.MakeMap:
		fr.set(instr, newMap())
	case *ssa.Range:
		fr.set(instr, p.rangeIter(fr.get(instr.X), instr.X.Type()))
	case *ssa.Next:
		fr.set(instr, fr.get(instr.Iter).(iter).next(p))
	case *ssa.FieldAddr:
		ptr := fr.get(instr.X).(*Value)
		if ptr == nil {
			panic(targetPanic{mkExtErr("runtime error: invalid memory address or nil pointer dereference")})
		}
		s, ok := (*ptr).(Struct)
		if !ok {
			p.unsupported("FieldAddr on %T (%s)", *ptr, instr.X.Type())
		}
		fr.set(instr, &s[instr.Field])
	case *ssa.Field:
		fr.set(instr, copyVal(fr.get(instr.X).(Struct)[instr.Field]))
	case *ssa.IndexAddr:
		x := fr.get(instr.X)
		idx := fr.get(instr.Index).(*Term)
		switch x := x.(type) {
		case Slice:
			i := p.indexCheck(idx, len(x.a), instr.Index.Type())
			fr.set(instr, &x.a[i])
		case *Value:
			if x == nil {
				panic(targetPanic{mkExtErr("runtime error: invalid memory address or nil pointer dereference")})
			}
			a := (*x).(Array)
			i := p.indexCheck(idx, len(a), instr.Index.Type())
			fr.set(instr, &a[i])
		default:
			panic(fmt.Sprintf("IndexAddr on %T", x))
		}
	case *ssa.Index:
		x := fr.get(instr.X)
		idx := fr.get(instr.Index).(*Term)
		switch x := x.(type) {
		case Array:
			i := p.indexCheck(idx, len(x), instr.Index.Type())
			fr.set(instr, copyVal(x[i]))
		case string:
			i := p.indexCheck(idx, len(x), instr.Index.Type())
			fr.set(instr, p.mkInt(types.Typ[types.Uint8], int64(x[i])))
		default:
			panic(fmt.Sprintf("Index on %T", x))
		}
	case *ssa.Lookup:
		fr.set(instr, p.lookup(instr, fr.get(instr.X), fr.get(instr.Index)))
	case *ssa.MapUpdate:
		m := fr.get(instr.Map).(*MapObj)
		if m == nil {
			panic(targetPanic{mkExtErr("assignment to entry in nil map")})
		}
		p.mapSet(m, fr.get(instr.Key), fr.get(instr.Value))
	case *ssa.TypeAssert:
		fr.set(instr, p.typeAssert(instr, fr.get(instr.X).(Iface)))
	case *ssa.MakeClosure:
		var bindings []Value
		for _, b := range instr.Bindings {
			bindings = append(bindings, fr.get(b))
		}
		fr.set(instr, &Closure{fn: instr.Fn.(*ssa.Function), env: bindings})
	case *ssa.Phi:
		for i, pred := range instr.Block().Preds {
			if fr.prevBlock == pred {
				fr.set(instr, fr.get(instr.Edges[i]))
				break
			}
		}
	case *ssa.Select:
		p.selectInstr(fr, instr)
	case *ssa.MultiConvert:
		p.unsupported("MultiConvert")
	default:
		panic(fmt.Sprintf("unexpected instruction: %T", instr))
	}
	return kNext
}

func (p *Path) unwindHit(fr *Frame, instr ssa.Instruction) {
	pos := p.e.prog.Fset.Position(instr.Pos())
	msg := fmt.Sprintf("loop in %s (%s:%d) still iterating after %d symbolic iterations", fr.fn.Name(), shortFile(pos.Filename), pos.Line, p.unwind)
	if p.unwindStrict {
		p.obl++
		p.recordViolation("unwind", msg, p.model, "")
		panic(pathEnd{"unwind"})
	}
	panic(inconclusive{"budget: unwind bound: " + msg})
}

func shortFile(f string) string {
	if i := strings.LastIndex(f, "/"); i >= 0 {
		return f[i+1:]
	}
	return f
}

// concreteInt demands a concrete integer (sizes, counts).
func (p *Path) concreteInt(v Value, what string) int64 {
	t := v.(*Term)
	if !t.IsConst() {
		// case-split small ranges? keep simple: unsupported
		p.unsupported("symbolic %s", what)
	}
	return t.SVal()
}

// indexCheck resolves an index term into a concrete index in [0,n), forking over feasible values; out of range panics.
func (p *Path) indexCheck(idx *Term, n int, t types.Type) int {
	if idx.IsConst() {
		i := idx.SVal()
		if b, ok := typeBasic(t); ok && b.Info()&types.IsUnsigned != 0 && idx.w != SortInt {
			i = int64(idx.val) // an unsigned index (e.g. uint8 255 into a 256-entry table) is not sign-extended
		}
		if i < 0 || i >= int64(n) {
			panic(targetPanic{mkExtErr(fmt.Sprintf("runtime error: index out of range [%d] with length %d", i, n))})
		}
		return int(i)
	}
	for i := 0; i < n; i++ {
		if p.decide(p.tt.Eq(idx, p.tt.Const(idx.w, uint64(i)))) {
			return i
		}
	}
	panic(targetPanic{mkExtErr(fmt.Sprintf("runtime error: index out of range [symbolic] with length %d", n))})
}

func (p *Path) mkInt(t types.Type, v int64) *Term {
	b := t.Underlying().(*types.Basic)
	if p.e.intMode {
		return p.tt.IntConst(v)
	}
	return p.tt.Const(intWidth(b), uint64(v))
}

func (p *Path) mkIntT(v int64) *Term { return p.mkInt(types.Typ[types.Int], v) }

func constantBool(c *ssa.Const) bool {
	return c.Value.String() == "true"
}

func constantString(c *ssa.Const) string {
	return constantStringVal(c)
}

var _ = token.ADD

// The SSA values of a frame live in lazily allocated chunks: the generated archetype bodies and the TLA+ evaluator
// have thousands of SSA values per function of which one call touches a few.
const (
	envShift = 4
	envChunk = 1 << envShift
	envMask  = envChunk - 1
)

type fnInfo struct {
	idx map[ssa.Value]int
	n   int
}

func (fr *Frame) set(key ssa.Value, v Value) {
	i := fr.info.idx[key]
	c := fr.env[i>>envShift]
	if c == nil {
		c = new([envChunk]Value)
		fr.env[i>>envShift] = c
	}
	c[i&envMask] = v
}

func (e *Engine) fnInfoOf(fn *ssa.Function) *fnInfo {
	if v, ok := e.fnInfos.Load(fn); ok {
		return v.(*fnInfo)
	}
	info := &fnInfo{idx: map[ssa.Value]int{}}
	add := func(v ssa.Value) {
		if _, ok := info.idx[v]; !ok {
			info.idx[v] = info.n
			info.n++
		}
	}
	for _, p := range fn.Params {
		add(p)
	}
	for _, f := range fn.FreeVars {
		add(f)
	}
	for _, l := range fn.Locals {
		add(l)
	}
	for _, b := range fn.Blocks {
		for _, ins := range b.Instrs {
			if v, ok := ins.(ssa.Value); ok {
				add(v)
			}
		}
	}
	v, _ := e.fnInfos.LoadOrStore(fn, info)
	return v.(*fnInfo)
}

func typeBasic(t types.Type) (*types.Basic, bool) {
	if t == nil {
		return nil, false
	}
	b, ok := t.Underlying().(*types.Basic)
	return b, ok
}
