package main

// SMT-LIB2 printing and solver sessions (one long-lived process per worker).

import (
	"bufio"
	"fmt"
	"io"
	"math/big"
	"os/exec"
	"strconv"
	"strings"
	"time"
)

func sortStr(w int) string {
	switch {
	case w == 0:
		return "Bool"
	case w == SortInt:
		return "Int"
	}
	return fmt.Sprintf("(_ BitVec %d)", w)
}

func constStr(t *Term) string {
	switch {
	case t.w == 0:
		if t.val == 1 {
			return "true"
		}
		return "false"
	case t.w == SortInt:
		v := int64(t.val)
		if v < 0 {
			if v == -v { // MinInt64
				return "(- 9223372036854775808)"
			}
			return fmt.Sprintf("(- %d)", -v)
		}
		return strconv.FormatInt(v, 10)
	}
	return fmt.Sprintf("(_ bv%d %d)", t.val, t.w)
}

type SolverKind int

const (
	SolverZ3 SolverKind = iota
	SolverZ3New
	SolverCVC5
)

func (k SolverKind) String() string { return [...]string{"z3", "z3-new", "cvc5"}[k] }

type Solver struct {
	kind    SolverKind
	cmd     *exec.Cmd
	in      io.WriteCloser
	out     *bufio.Reader
	defined map[*Term]bool
	buf     strings.Builder
	// stats
	queries  int
	sat      int
	unsat    int
	unknown  int
	errors   int
	wall     time.Duration
	timeout  int // ms
	logW     io.Writer
	lastErr  string
	dead     bool
	intMode  bool
	gen      int
	restarts int
}

func NewSolver(kind SolverKind, timeoutMs int) (*Solver, error) {
	var cmd *exec.Cmd
	switch kind {
	case SolverZ3:
		cmd = exec.Command("/usr/bin/z3", "-in")
	case SolverZ3New:
		cmd = exec.Command("z3-new", "-in")
	case SolverCVC5:
		cmd = exec.Command("cvc5", "--incremental", "--lang", "smt2", "--produce-models", fmt.Sprintf("--tlimit-per=%d", timeoutMs))
	}
	in, err := cmd.StdinPipe()
	if err != nil {
		return nil, err
	}
	out, err := cmd.StdoutPipe()
	if err != nil {
		return nil, err
	}
	cmd.Stderr = cmd.Stdout
	if err := cmd.Start(); err != nil {
		return nil, err
	}
	s := &Solver{kind: kind, cmd: cmd, in: in, out: bufio.NewReaderSize(out, 1<<16), defined: map[*Term]bool{}, timeout: timeoutMs}
	s.preamble()
	return s, nil
}

func (s *Solver) preamble() {
	if s.kind == SolverCVC5 {
		s.send("(set-logic ALL)\n")
	} else {
		s.send(fmt.Sprintf("(set-option :timeout %d)\n", s.timeout))
	}
	s.send("(push 1)\n")
}

func (s *Solver) send(txt string) {
	if s.logW != nil {
		io.WriteString(s.logW, txt)
	}
	if s.dead {
		return
	}
	if _, err := io.WriteString(s.in, txt); err != nil {
		s.dead = true
	}
}

// roundTrip sends text then an echo marker and returns all output lines before the marker.
func (s *Solver) roundTrip(txt string) []string {
	if s.dead {
		s.restart()
		return []string{"(error \"solver restarted\")"}
	}
	s.send(txt)
	s.send("(echo \"@@END\")\n")
	proc := s.cmd.Process
	wd := time.AfterFunc(time.Duration(s.timeout)*time.Millisecond+5*time.Second, func() { proc.Kill() })
	defer wd.Stop()
	var lines []string
	for {
		if s.dead {
			return append(lines, "(error \"solver dead\")")
		}
		line, err := s.out.ReadString('\n')
		if err != nil {
			s.dead = true
			return append(lines, "(error \"solver eof\")")
		}
		line = strings.TrimSpace(line)
		if line == "@@END" || line == "\"@@END\"" {
			return lines
		}
		if line != "" {
			lines = append(lines, line)
		}
	}
}

// restart replaces a dead solver process; the path must re-assert its condition (gen changes).
func (s *Solver) restart() {
	if s.cmd != nil && s.cmd.Process != nil {
		s.in.Close()
		s.cmd.Process.Kill()
		s.cmd.Wait()
	}
	n, err := NewSolver(s.kind, s.timeout)
	if err != nil {
		return
	}
	s.cmd, s.in, s.out = n.cmd, n.in, n.out
	s.defined = map[*Term]bool{}
	s.buf.Reset()
	s.dead = false
	s.gen++
	s.restarts++
}

func (s *Solver) Close() {
	if s.cmd != nil && s.cmd.Process != nil {
		s.in.Close()
		s.cmd.Process.Kill()
		s.cmd.Wait()
	}
}

// ResetPath drops everything asserted on the current path.
func (s *Solver) ResetPath() {
	s.send("(pop 1)\n(push 1)\n")
	s.defined = map[*Term]bool{}
}

func (s *Solver) name(t *Term) string {
	switch t.op {
	case OConst:
		return constStr(t)
	case OVar:
		return "|" + t.name + "|"
	}
	return "t" + strconv.Itoa(t.id)
}

var pow2cache = map[int]string{}

func pow2(k int) string {
	if s, ok := pow2cache[k]; ok {
		return s
	}
	return new(big.Int).Lsh(big.NewInt(1), uint(k)).String()
}

// define emits definitions for t and everything below it (iteratively).
func (s *Solver) define(t *Term) {
	if s.defined[t] || t.op == OConst {
		return
	}
	// iterative post-order
	type item struct {
		t *Term
		i int
	}
	stack := []item{{t, 0}}
	for len(stack) > 0 {
		top := &stack[len(stack)-1]
		if s.defined[top.t] || top.t.op == OConst {
			stack = stack[:len(stack)-1]
			continue
		}
		if top.i < len(top.t.args) {
			a := top.t.args[top.i]
			top.i++
			if !s.defined[a] && a.op != OConst {
				stack = append(stack, item{a, 0})
			}
			continue
		}
		s.emitDef(top.t)
		s.defined[top.t] = true
		stack = stack[:len(stack)-1]
	}
}

func (s *Solver) emitDef(t *Term) {
	b := &s.buf
	if t.op == OVar {
		fmt.Fprintf(b, "(declare-const |%s| %s)\n", t.name, sortStr(t.w))
		if t.w == SortInt && t.hasRange {
			fmt.Fprintf(b, "(assert (and (<= %s |%s|) (<= |%s| %s)))\n", constStr(&Term{op: OConst, w: SortInt, val: uint64(t.lo)}), t.name, t.name, constStr(&Term{op: OConst, w: SortInt, val: uint64(t.hi)}))
		}
		return
	}
	fmt.Fprintf(b, "(define-fun t%d () %s ", t.id, sortStr(t.w))
	a := func(i int) string { return s.name(t.args[i]) }
	isInt := t.w == SortInt || (len(t.args) > 0 && t.args[0].w == SortInt && t.op != OInt2BV)
	switch t.op {
	case ONot:
		fmt.Fprintf(b, "(not %s)", a(0))
	case OAnd, OOr, OEq:
		fmt.Fprintf(b, "(%s %s %s)", opNames[t.op], a(0), a(1))
	case OIte:
		fmt.Fprintf(b, "(ite %s %s %s)", a(0), a(1), a(2))
	case OZext:
		fmt.Fprintf(b, "((_ zero_extend %d) %s)", t.w-t.args[0].w, a(0))
	case OSext:
		fmt.Fprintf(b, "((_ sign_extend %d) %s)", t.w-t.args[0].w, a(0))
	case OExtract:
		fmt.Fprintf(b, "((_ extract %d %d) %s)", t.aux>>8, t.aux&0xff, a(0))
	case OInt2BV:
		fmt.Fprintf(b, "((_ int2bv %d) %s)", t.w, a(0))
	case OBV2Int:
		fmt.Fprintf(b, "(bv2nat %s)", a(0))
	case OBNot, ONeg:
		fmt.Fprintf(b, "(%s %s)", opNames[t.op], a(0))
	default:
		if isInt {
			switch t.op {
			case OAdd:
				fmt.Fprintf(b, "(+ %s %s)", a(0), a(1))
			case OSub:
				fmt.Fprintf(b, "(- %s %s)", a(0), a(1))
			case OMul:
				fmt.Fprintf(b, "(* %s %s)", a(0), a(1))
			case OIDiv:
				fmt.Fprintf(b, "(div %s %s)", a(0), a(1))
			case OIMod:
				if len(t.args) == 1 {
					k := t.aux >> 1
					if t.aux&1 == 1 {
						fmt.Fprintf(b, "(- (mod (+ %s %s) %s) %s)", a(0), pow2(k-1), pow2(k), pow2(k-1))
					} else {
						fmt.Fprintf(b, "(mod %s %s)", a(0), pow2(k))
					}
				} else {
					fmt.Fprintf(b, "(mod %s %s)", a(0), a(1))
				}
			case OSLt, OULt:
				fmt.Fprintf(b, "(< %s %s)", a(0), a(1))
			case OSLe, OULe:
				fmt.Fprintf(b, "(<= %s %s)", a(0), a(1))
			default:
				panic(fmt.Sprintf("emitDef: int op %d", t.op))
			}
		} else {
			fmt.Fprintf(b, "(%s %s %s)", opNames[t.op], a(0), a(1))
		}
	}
	b.WriteString(")\n")
}

// Assert adds t to the path-level assertion set.
func (s *Solver) Assert(t *Term) {
	s.define(t)
	fmt.Fprintf(&s.buf, "(assert %s)\n", s.name(t))
}

var slowLog func(txt string, d time.Duration, lines []string)

type SatResult int

const (
	Sat SatResult = iota
	Unsat
	Unknown
)

func (r SatResult) String() string { return [...]string{"sat", "unsat", "unknown"}[r] }

// Check asks whether (path assertions ∧ extra) is satisfiable. If wantModel and sat, returns values of vars.
func (s *Solver) Check(extra *Term, vars []*Term, wantModel bool) (SatResult, Model) {
	t0 := time.Now()
	defer func() { s.wall += time.Since(t0) }()
	s.queries++
	if extra != nil {
		s.define(extra)
	}
	for _, v := range vars {
		s.define(v)
	}
	b := &s.buf
	b.WriteString("(push 1)\n")
	if extra != nil {
		fmt.Fprintf(b, "(assert %s)\n", s.name(extra))
	}
	b.WriteString("(check-sat)\n")
	txt := b.String()
	b.Reset()
	tq := time.Now()
	lines := s.roundTrip(txt)
	if d := time.Since(tq); d > 2*time.Second && slowLog != nil {
		slowLog(txt, d, lines)
	}
	res := Unknown
	gotErr := false
	for _, l := range lines {
		if strings.HasPrefix(l, "(error") {
			gotErr = true
			s.lastErr = l
		}
	}
	if len(lines) > 0 && !gotErr {
		switch lines[len(lines)-1] {
		case "sat":
			res = Sat
		case "unsat":
			res = Unsat
		}
	}
	if gotErr {
		s.errors++
		res = Unknown
	}
	var model Model
	if res == Sat && wantModel && len(vars) > 0 {
		var q strings.Builder
		q.WriteString("(get-value (")
		for _, v := range vars {
			q.WriteString(s.name(v))
			q.WriteString(" ")
		}
		q.WriteString("))\n")
		ml := s.roundTrip(q.String())
		model = parseModel(strings.Join(ml, " "), vars)
	}
	s.send("(pop 1)\n")
	switch res {
	case Sat:
		s.sat++
	case Unsat:
		s.unsat++
	default:
		s.unknown++
	}
	return res, model
}

// parseModel parses "((|a| #x0000002a) (|b| true) (|c| (- 5)))".
func parseModel(txt string, vars []*Term) Model {
	m := Model{}
	toks := tokenize(txt)
	// walk tokens: pattern "(" name value... ")"
	i := 0
	if len(toks) > 0 && toks[0] == "(" {
		i = 1
	}
	for i < len(toks) {
		if toks[i] != "(" {
			i++
			continue
		}
		i++
		if i >= len(toks) {
			break
		}
		name := strings.Trim(toks[i], "|")
		i++
		// value: atom or parenthesised
		var val uint64
		if i < len(toks) && toks[i] == "(" {
			// (- N) or (_ bvN w)
			depth := 0
			var inner []string
			for i < len(toks) {
				if toks[i] == "(" {
					depth++
				} else if toks[i] == ")" {
					depth--
					if depth == 0 {
						i++
						break
					}
				} else {
					inner = append(inner, toks[i])
				}
				i++
			}
			if len(inner) >= 2 && inner[0] == "-" {
				bi, _ := new(big.Int).SetString(inner[1], 10)
				if bi != nil {
					val = uint64(-bi.Int64())
					if !bi.IsInt64() {
						val = -bi.Uint64()
					}
				}
			} else if len(inner) >= 2 && inner[0] == "_" && strings.HasPrefix(inner[1], "bv") {
				bi, _ := new(big.Int).SetString(inner[1][2:], 10)
				if bi != nil {
					val = bi.Uint64()
				}
			}
		} else if i < len(toks) {
			a := toks[i]
			i++
			switch {
			case a == "true":
				val = 1
			case a == "false":
				val = 0
			case strings.HasPrefix(a, "#x"):
				val, _ = strconv.ParseUint(a[2:], 16, 64)
			case strings.HasPrefix(a, "#b"):
				val, _ = strconv.ParseUint(a[2:], 2, 64)
			default:
				bi, _ := new(big.Int).SetString(a, 10)
				if bi != nil {
					if bi.IsInt64() {
						val = uint64(bi.Int64())
					} else {
						val = bi.Uint64()
					}
				}
			}
		}
		m[name] = val
		// skip to closing paren of this pair
		for i < len(toks) && toks[i] != ")" {
			i++
		}
		i++
	}
	return m
}

func tokenize(s string) []string {
	var toks []string
	i := 0
	for i < len(s) {
		c := s[i]
		switch {
		case c == ' ' || c == '\t' || c == '\n' || c == '\r':
			i++
		case c == '(' || c == ')':
			toks = append(toks, string(c))
			i++
		case c == '|':
			j := i + 1
			for j < len(s) && s[j] != '|' {
				j++
			}
			toks = append(toks, s[i:min(j+1, len(s))])
			i = j + 1
		default:
			j := i
			for j < len(s) && !strings.ContainsRune(" \t\n\r()", rune(s[j])) {
				j++
			}
			toks = append(toks, s[i:j])
			i = j
		}
	}
	return toks
}

// Flush sends pending definitions/assertions without a query (not normally needed).
func (s *Solver) Flush() {
	if s.buf.Len() > 0 {
		s.send(s.buf.String())
		s.buf.Reset()
	}
}

// Script returns a standalone SMT-LIB script for PC ∧ extra (for cross-solver diffing).
func standaloneScript(pc []*Term, extra *Term, intMode bool) string {
	s := &Solver{defined: map[*Term]bool{}}
	var b strings.Builder
	for _, t := range pc {
		s.Assert(t)
	}
	if extra != nil {
		s.Assert(extra)
	}
	b.WriteString(s.buf.String())
	b.WriteString("(check-sat)\n")
	return b.String()
}
