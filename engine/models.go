package main

// Models of sync, time, math/rand.

import (
	"fmt"
	"go/types"
)

func (s *Sched) mutex(cell *Value) *mutexState {
	m, ok := s.mutexes[cell]
	if !ok {
		m = &mutexState{}
		s.mutexes[cell] = m
	}
	return m
}

func registerSyncIntrinsics() {
	lock := func(p *Path, th *Thread, fr *Frame, args []Value) Value {
		m := p.sched.mutex(args[0].(*Value))
		p.sched.syncPoint(th, func() bool { return !m.locked && m.readers == 0 })
		m.locked = true
		return nil
	}
	unlock := func(p *Path, th *Thread, fr *Frame, args []Value) Value {
		m := p.sched.mutex(args[0].(*Value))
		if !m.locked {
			panic(targetPanic{mkExtErr("fatal error: sync: unlock of unlocked mutex")})
		}
		m.locked = false
		return nil
	}
	intrinsics["(*sync.Mutex).Lock"] = lock
	intrinsics["(*sync.Mutex).Unlock"] = unlock
	intrinsics["(*sync.Mutex).TryLock"] = func(p *Path, th *Thread, fr *Frame, args []Value) Value {
		m := p.sched.mutex(args[0].(*Value))
		p.sched.syncPoint(th, nil)
		if m.locked || m.readers > 0 {
			return p.tt.Bool(false)
		}
		m.locked = true
		return p.tt.Bool(true)
	}
	intrinsics["(*sync.RWMutex).Lock"] = lock
	intrinsics["(*sync.RWMutex).Unlock"] = unlock
	intrinsics["(*sync.RWMutex).RLock"] = func(p *Path, th *Thread, fr *Frame, args []Value) Value {
		m := p.sched.mutex(args[0].(*Value))
		p.sched.syncPoint(th, func() bool { return !m.locked })
		m.readers++
		return nil
	}
	intrinsics["(*sync.RWMutex).RUnlock"] = func(p *Path, th *Thread, fr *Frame, args []Value) Value {
		m := p.sched.mutex(args[0].(*Value))
		if m.readers <= 0 {
			panic(targetPanic{mkExtErr("fatal error: sync: RUnlock of unlocked RWMutex")})
		}
		m.readers--
		return nil
	}
	wgOf := func(p *Path, cell *Value) *int {
		c, ok := p.sched.wgs[cell]
		if !ok {
			c = new(int)
			p.sched.wgs[cell] = c
		}
		return c
	}
	intrinsics["(*sync.WaitGroup).Add"] = func(p *Path, th *Thread, fr *Frame, args []Value) Value {
		c := wgOf(p, args[0].(*Value))
		*c += int(p.concreteInt(args[1], "WaitGroup delta"))
		if *c < 0 {
			panic(targetPanic{mkExtErr("sync: negative WaitGroup counter")})
		}
		return nil
	}
	intrinsics["(*sync.WaitGroup).Done"] = func(p *Path, th *Thread, fr *Frame, args []Value) Value {
		c := wgOf(p, args[0].(*Value))
		*c--
		if *c < 0 {
			panic(targetPanic{mkExtErr("sync: negative WaitGroup counter")})
		}
		return nil
	}
	intrinsics["(*sync.WaitGroup).Wait"] = func(p *Path, th *Thread, fr *Frame, args []Value) Value {
		c := wgOf(p, args[0].(*Value))
		p.sched.syncPoint(th, func() bool { return *c == 0 })
		return nil
	}
	intrinsics["(*sync.Once).Do"] = func(p *Path, th *Thread, fr *Frame, args []Value) Value {
		cell := args[0].(*Value)
		key := struct {
			k string
			c *Value
		}{"once", cell}
		if _, done := p.side[key]; done {
			return nil
		}
		p.side[key] = true
		p.call(th, fr, args[1], nil)
		return nil
	}
	intrinsics["(*sync.Pool).Get"] = func(p *Path, th *Thread, fr *Frame, args []Value) Value {
		pool := args[0].(*Value)
		st := (*pool).(Struct)
		// last field of sync.Pool is New func() any
		newf := st[len(st)-1]
		if isNilFunc(newf) {
			return Iface{}
		}
		return p.call(th, fr, newf, nil)
	}
	intrinsics["(*sync.Pool).Put"] = intrNop
	intrinsics["(*sync/atomic.Bool).Swap"] = func(p *Path, th *Thread, fr *Frame, args []Value) Value {
		cell := args[0].(*Value)
		key := struct {
			k string
			c *Value
		}{"atomicbool", cell}
		old, _ := p.side[key].(*Term)
		if old == nil {
			old = p.tt.Bool(false)
		}
		p.side[key] = args[1].(*Term)
		return old
	}
	intrinsics["(*sync/atomic.Bool).Load"] = func(p *Path, th *Thread, fr *Frame, args []Value) Value {
		cell := args[0].(*Value)
		key := struct {
			k string
			c *Value
		}{"atomicbool", cell}
		old, _ := p.side[key].(*Term)
		if old == nil {
			old = p.tt.Bool(false)
		}
		return old
	}
	intrinsics["(*sync/atomic.Bool).Store"] = func(p *Path, th *Thread, fr *Frame, args []Value) Value {
		cell := args[0].(*Value)
		key := struct {
			k string
			c *Value
		}{"atomicbool", cell}
		p.side[key] = args[1].(*Term)
		return nil
	}
}

// time.Time is modelled by its real struct {wall uint64; ext int64; loc *Location} with wall = 0 (no monotonic
// reading, nsec = 0) and ext = symbolic seconds; the real After/Before/Equal/Sub are interpreted from the std SSA.
func (p *Path) timeStruct(ext *Term) Value {
	tt := p.tt
	return Struct{tt.Const(p.e.intWidthSort(types.Typ[types.Uint64]), 0), ext, (*Value)(nil)}
}

func (p *Path) durationOf(v Value) (int64, bool) {
	t := v.(*Term)
	if t.IsConst() {
		return t.SVal(), true
	}
	return 0, false
}

func registerTimeIntrinsics() {
	intrinsics["time.Now"] = func(p *Path, th *Thread, fr *Frame, args []Value) Value {
		// arbitrary non-decreasing instants
		v := p.freshVar("time.Now", 64, true)
		tt := p.tt
		if prev, ok := p.side["time.last"].(*Term); ok {
			p.assume(tt.Cmp(OSLe, prev, v))
		} else {
			lo, hi := p.mkInt(types.Typ[types.Int64], 0), p.mkInt(types.Typ[types.Int64], int64(1)<<40)
			p.assume(tt.And(tt.Cmp(OSLe, lo, v), tt.Cmp(OSLe, v, hi)))
		}
		p.side["time.last"] = v
		return p.timeStruct(v)
	}
	intrinsics["time.Unix"] = func(p *Path, th *Thread, fr *Frame, args []Value) Value {
		return p.timeStruct(args[0].(*Term))
	}
	intrinsics["(time.Time).UnixNano"] = func(p *Path, th *Thread, fr *Frame, args []Value) Value {
		return args[0].(Struct)[1]
	}
	intrinsics["(time.Time).Unix"] = func(p *Path, th *Thread, fr *Frame, args []Value) Value {
		return args[0].(Struct)[1]
	}
	intrinsics["(time.Time).After"] = func(p *Path, th *Thread, fr *Frame, args []Value) Value {
		return p.tt.Cmp(OSLt, args[1].(Struct)[1].(*Term), args[0].(Struct)[1].(*Term))
	}
	intrinsics["(time.Time).Before"] = func(p *Path, th *Thread, fr *Frame, args []Value) Value {
		return p.tt.Cmp(OSLt, args[0].(Struct)[1].(*Term), args[1].(Struct)[1].(*Term))
	}
	intrinsics["(time.Time).Equal"] = func(p *Path, th *Thread, fr *Frame, args []Value) Value {
		return p.tt.Eq(args[0].(Struct)[1].(*Term), args[1].(Struct)[1].(*Term))
	}
	intrinsics["(time.Time).IsZero"] = func(p *Path, th *Thread, fr *Frame, args []Value) Value {
		t := args[0].(Struct)[1].(*Term)
		return p.tt.Eq(t, p.tt.Const(t.w, 0))
	}
	intrinsics["(time.Time).Add"] = func(p *Path, th *Thread, fr *Frame, args []Value) Value {
		// deadlines are not compared by the code under test; keep the instant
		return args[0]
	}
	intrinsics["(time.Time).Sub"] = func(p *Path, th *Thread, fr *Frame, args []Value) Value {
		a, b := args[0].(Struct)[1].(*Term), args[1].(Struct)[1].(*Term)
		if p.e.intMode {
			return p.tt.binInt(OSub, a, b)
		}
		return p.tt.Bin(OSub, a, b)
	}
	intrinsics["time.Since"] = func(p *Path, th *Thread, fr *Frame, args []Value) Value {
		return p.freshVar("time.Since", 64, true)
	}
	intrinsics["time.Sleep"] = func(p *Path, th *Thread, fr *Frame, args []Value) Value {
		n, _ := p.side["sleepCount"].(int)
		p.side["sleepCount"] = n + 1
		// the total time slept (a term: durations may be symbolic), for harnesses that bound a delay
		if d, ok := args[0].(*Term); ok {
			if tot, ok := p.side["sleepTotal"].(*Term); ok && tot.w == d.w {
				p.side["sleepTotal"] = p.tt.Bin(OAdd, tot, d)
			} else {
				p.side["sleepTotal"] = d
			}
		}
		p.sched.yield(th)
		return nil
	}
	intrinsics["time.After"] = func(p *Path, th *Thread, fr *Frame, args []Value) Value {
		t := p.sched.newTimer(false, "After")
		return t.ch
	}
	intrinsics["time.Tick"] = func(p *Path, th *Thread, fr *Frame, args []Value) Value {
		t := p.sched.newTimer(true, "Tick")
		return t.ch
	}
	intrinsics["time.ParseDuration"] = func(p *Path, th *Thread, fr *Frame, args []Value) Value {
		return Tuple{p.mkInt(types.Typ[types.Int64], 1000000), Iface{}}
	}
	// *time.Timer / *time.Ticker: real struct has field C (chan) first; we allocate the struct and remember the Timer.
	mk := func(periodic bool, label string) intrinsicFunc {
		return func(p *Path, th *Thread, fr *Frame, args []Value) Value {
			t := p.sched.newTimer(periodic, label)
			var typ types.Type
			if periodic {
				typ = p.e.pkgs["time"].Type("Ticker").Type()
			} else {
				typ = p.e.pkgs["time"].Type("Timer").Type()
			}
			st := p.e.zero(p.tt, typ).(Struct)
			st[0] = t.ch
			cell := new(Value)
			*cell = st
			p.side[cell] = t
			return cell
		}
	}
	intrinsics["time.NewTimer"] = mk(false, "Timer")
	intrinsics["time.NewTicker"] = mk(true, "Ticker")
	stop := func(p *Path, th *Thread, fr *Frame, args []Value) Value {
		t, _ := p.side[args[0].(*Value)].(*Timer)
		if t == nil {
			return p.tt.Bool(false)
		}
		was := !t.stopped && (t.periodic || t.fired == 0)
		t.stopped = true
		return p.tt.Bool(was)
	}
	intrinsics["(*time.Timer).Stop"] = stop
	intrinsics["(*time.Ticker).Stop"] = func(p *Path, th *Thread, fr *Frame, args []Value) Value {
		stop(p, th, fr, args)
		return nil
	}
	intrinsics["(*time.Timer).Reset"] = func(p *Path, th *Thread, fr *Frame, args []Value) Value {
		t, _ := p.side[args[0].(*Value)].(*Timer)
		if t == nil {
			return p.tt.Bool(false)
		}
		was := !t.stopped && t.fired == 0
		t.stopped = false
		t.fired = 0
		return p.tt.Bool(was)
	}

	// math/rand: arbitrary values
	intrinsics["math/rand.Uint32"] = func(p *Path, th *Thread, fr *Frame, args []Value) Value {
		return p.freshVar("rand.Uint32", 32, false)
	}
	intrinsics["math/rand.Seed"] = intrNop
	intrinsics["math/rand.Intn"] = func(p *Path, th *Thread, fr *Frame, args []Value) Value {
		v := p.freshVar("rand.Intn", 64, true)
		n := args[0].(*Term)
		p.assume(p.tt.And(p.tt.Cmp(OSLe, p.mkIntT(0), v), p.tt.Cmp(OSLt, v, n)))
		return v
	}
	intrinsics["math/rand.Int63"] = func(p *Path, th *Thread, fr *Frame, args []Value) Value {
		v := p.freshVar("rand.Int63", 64, true)
		p.assume(p.tt.Cmp(OSLe, p.mkIntT(0), v))
		return v
	}
	intrinsics["math/rand.NewSource"] = func(p *Path, th *Thread, fr *Frame, args []Value) Value { return Iface{} }
	intrinsics["math/rand.New"] = func(p *Path, th *Thread, fr *Frame, args []Value) Value {
		cell := new(Value)
		*cell = Struct{}
		return cell
	}
	intrinsics["(*math/rand.Rand).Intn"] = func(p *Path, th *Thread, fr *Frame, args []Value) Value {
		v := p.freshVar("rand.Intn", 64, true)
		n := args[1].(*Term)
		p.assume(p.tt.And(p.tt.Cmp(OSLe, p.mkIntT(0), v), p.tt.Cmp(OSLt, v, n)))
		return v
	}
	intrinsics["(*math/rand.Rand).ExpFloat64"] = func(p *Path, th *Thread, fr *Frame, args []Value) Value { return float64(1) }
	intrinsics["(*math/rand.Rand).Float64"] = func(p *Path, th *Thread, fr *Frame, args []Value) Value { return float64(0.5) }
}

// ---------- hash functions as uninterpreted functions ----------
//
// fnv1a.AddUint32 / AddString32 on symbolic arguments are abstracted to an uninterpreted function with
// congruence axioms (a = a' ∧ b = b' ⇒ f(a,b) = f(a',b')). Deciding facts about concrete FNV collisions is not
// within reach of the solvers; every claim made with this abstraction holds for ANY hash function.

type ufApp struct {
	args []*Term
	str  string
	res  *Term
}

func (p *Path) ufApply(name string, args []*Term, str string) *Term {
	key := "uf:" + name
	apps, _ := p.side[key].([]ufApp)
	for _, a := range apps {
		if a.str != str {
			continue
		}
		same := true
		for i := range args {
			if a.args[i] != args[i] {
				same = false
			}
		}
		if same {
			return a.res
		}
	}
	tt := p.tt
	k := p.tagCount["uf:"+name]
	p.tagCount["uf:"+name]++
	var res *Term
	if p.e.intMode {
		res = tt.VarRange(fmt.Sprintf("uf.%s#%d", name, k), 0, int64(mask(32)))
	} else {
		res = tt.Var(fmt.Sprintf("uf.%s#%d", name, k), 32)
	}
	for _, a := range apps {
		if a.str != str {
			continue
		}
		eq := tt.Bool(true)
		for i := range args {
			eq = tt.And(eq, tt.Eq(a.args[i], args[i]))
		}
		if eq.IsFalse() {
			continue
		}
		p.addPC(tt.Or(tt.Not(eq), tt.Eq(a.res, res)))
	}
	p.side[key] = append(apps, ufApp{args: args, str: str, res: res})
	p.model = nil // the cached model does not assign the new symbol consistently
	return res
}

func fnvAddUint32(h, u uint32) uint32 {
	const prime32 = uint32(16777619)
	h = (h ^ ((u >> 24) & 0xFF)) * prime32
	h = (h ^ ((u >> 16) & 0xFF)) * prime32
	h = (h ^ ((u >> 8) & 0xFF)) * prime32
	h = (h ^ ((u >> 0) & 0xFF)) * prime32
	return h
}

func fnvAddString32(h uint32, s string) uint32 {
	const prime32 = uint32(16777619)
	for i := 0; i < len(s); i++ {
		h = (h ^ uint32(s[i])) * prime32
	}
	return h
}

func init() {
	intrinsics["github.com/segmentio/fasthash/fnv1a.AddUint32"] = func(p *Path, th *Thread, fr *Frame, args []Value) Value {
		h, u := args[0].(*Term), args[1].(*Term)
		if h.IsConst() && u.IsConst() {
			return p.mkInt(types.Typ[types.Uint32], int64(fnvAddUint32(uint32(h.val), uint32(u.val))))
		}
		return p.ufApply("fnvAddUint32", []*Term{h, u}, "")
	}
	intrinsics["github.com/segmentio/fasthash/fnv1a.AddString32"] = func(p *Path, th *Thread, fr *Frame, args []Value) Value {
		h, s := args[0].(*Term), args[1].(string)
		if h.IsConst() {
			return p.mkInt(types.Typ[types.Uint32], int64(fnvAddString32(uint32(h.val), s)))
		}
		return p.ufApply("fnvAddString32", []*Term{h}, s)
	}
}

// ---------- distsys.DefineConstantOperator (its general case uses reflect) ----------

func fieldIndex(t types.Type, name string) int {
	st := t.Underlying().(*types.Struct)
	for i := 0; i < st.NumFields(); i++ {
		if st.Field(i).Name() == name {
			return i
		}
	}
	panic("no field " + name + " in " + t.String())
}

func init() {
	intrinsics["github.com/DistCompiler/pgo/distsys.DefineConstantOperator"] = func(p *Path, th *Thread, fr *Frame, args []Value) Value {
		name := args[0].(string)
		defn := args[1].(Iface)
		sig, ok := defn.t.Underlying().(*types.Signature)
		if !ok {
			panic(targetPanic{mkExtErr("constant operator definition " + name + " is not a function")})
		}
		variadic := sig.Variadic()
		nparams := sig.Params().Len()
		wrapper := &IntrinsicFn{name: "constantOperator:" + name, f: func(p *Path, th *Thread, fr *Frame, cargs []Value) Value {
			vals := cargs[0].(Slice).a
			var callArgs []Value
			if variadic {
				fixed := nparams - 1
				if len(vals) < fixed {
					panic(targetPanic{mkExtErr("constant operator " + name + " called with wrong number of arguments")})
				}
				for i := 0; i < fixed; i++ {
					callArgs = append(callArgs, vals[i])
				}
				rest := append([]Value{}, vals[fixed:]...)
				callArgs = append(callArgs, Slice{a: rest})
			} else {
				if len(vals) != nparams {
					panic(targetPanic{mkExtErr("constant operator " + name + " called with wrong number of arguments")})
				}
				callArgs = append(callArgs, vals...)
			}
			return p.call(th, fr, defn.v, callArgs)
		}}
		return &IntrinsicFn{name: "configFn:" + name, f: func(p *Path, th *Thread, fr *Frame, cargs []Value) Value {
			ctx := cargs[0].(*Value)
			ctxT := p.e.pkgs["github.com/DistCompiler/pgo/distsys"].Type("MPCalContext").Type()
			st := (*ctx).(Struct)
			m := st[fieldIndex(ctxT, "constantDefns")].(*MapObj)
			if p.mapFind(m, name) != nil {
				panic(targetPanic{mkExtErr("constant definition " + name + " defined twice")})
			}
			p.mapSet(m, name, wrapper)
			return nil
		}}
	}
}

// ---------- file system model (path -> contents) ----------

func (p *Path) fs() map[string]string {
	m, ok := p.side["fs"].(map[string]string)
	if !ok {
		m = map[string]string{}
		p.side["fs"] = m
	}
	return m
}

func bytesToString(p *Path, s Slice) string {
	b := make([]byte, len(s.a))
	for i, e := range s.a {
		b[i] = byte(p.concreteInt(e, "file byte"))
	}
	return string(b)
}

func stringToBytes(p *Path, s string) Slice {
	a := make([]Value, len(s))
	for i := 0; i < len(s); i++ {
		a[i] = p.mkInt(types.Typ[types.Uint8], int64(s[i]))
	}
	return Slice{a: a}
}

func init() {
	readFile := func(p *Path, th *Thread, fr *Frame, args []Value) Value {
		c, ok := p.fs()[args[0].(string)]
		if !ok {
			return Tuple{Slice{}, mkExtErr("open " + args[0].(string) + ": no such file or directory")}
		}
		return Tuple{stringToBytes(p, c), Iface{}}
	}
	writeFile := func(p *Path, th *Thread, fr *Frame, args []Value) Value {
		p.fs()[args[0].(string)] = bytesToString(p, args[1].(Slice))
		return Iface{}
	}
	intrinsics["os.ReadFile"] = readFile
	intrinsics["io/ioutil.ReadFile"] = readFile
	intrinsics["os.WriteFile"] = writeFile
	intrinsics["io/ioutil.WriteFile"] = writeFile
	intrinsics["os.MkdirTemp"] = func(p *Path, th *Thread, fr *Frame, args []Value) Value {
		k := p.tagCount["mkdirtemp"]
		p.tagCount["mkdirtemp"]++
		return Tuple{fmt.Sprintf("/modelfs/tmp%d", k), Iface{}}
	}
	intrinsics["os.RemoveAll"] = func(p *Path, th *Thread, fr *Frame, args []Value) Value { return Iface{} }
	intrinsics["os.MkdirAll"] = func(p *Path, th *Thread, fr *Frame, args []Value) Value { return Iface{} }
}

func init() {
	intrinsics["os.CreateTemp"] = func(p *Path, th *Thread, fr *Frame, args []Value) Value {
		cell := new(Value)
		*cell = p.e.zero(p.tt, p.e.pkgs["os"].Type("File").Type())
		return Tuple{cell, Iface{}}
	}
	intrinsics["encoding/json.NewEncoder"] = func(p *Path, th *Thread, fr *Frame, args []Value) Value {
		cell := new(Value)
		*cell = p.e.zero(p.tt, p.e.pkgs["encoding/json"].Type("Encoder").Type())
		return cell
	}
	intrinsics["(*encoding/json.Encoder).Encode"] = func(p *Path, th *Thread, fr *Frame, args []Value) Value { return Iface{} }
}
