package main

// Value representation. Shape is concrete, scalar leaves are *Term.
//
//   bool, intN, uintN, uintptr : *Term
//   string                      : string
//   float32/64                  : float64 (concrete only)
//   pointer                     : *Value
//   struct                      : Struct
//   array                       : Array
//   slice                       : Slice
//   map                         : *MapObj
//   chan                        : *ChanObj
//   interface                   : Iface
//   func                        : *ssa.Function | *ssa.Builtin | *Closure | nil(*Closure)
//   tuple                       : Tuple
//   opaque model objects        : *Opaque

import (
	"fmt"
	"go/types"
	"sort"
	"strings"

	"golang.org/x/tools/go/ssa"
)

type Value = any

type Struct []Value
type Array []Value
type Tuple []Value

type Slice struct {
	a []Value // len/cap are those of a; nil slice: a == nil
}

type Iface struct {
	t types.Type // dynamic type; nil for nil interface
	v Value
}

type Closure struct {
	fn  *ssa.Function
	env []Value
}

type mapEntry struct {
	k, v    Value
	deleted bool
}

type MapObj struct {
	entries []*mapEntry
	index   map[string]*mapEntry // concrete keys only
	n       int
	hasSym  bool // some key contains a symbolic leaf
}

type Opaque struct {
	kind string
	data any
}

// ExtError models error values created outside interpreted code (errors.New, fmt.Errorf, runtime errors, io.EOF...).
type ExtError struct {
	msg     string
	wrapped []Value // Iface values
	runtime bool
}

var extErrorType types.Type = types.NewNamed(types.NewTypeName(0, nil, "extError", nil), types.NewStruct(nil, nil), nil)

func mkExtErr(msg string, wrapped ...Value) Iface {
	return Iface{t: extErrorType, v: &ExtError{msg: msg, wrapped: wrapped}}
}

func isNilPtr(v Value) bool {
	p, ok := v.(*Value)
	return ok && p == nil
}

// zero returns the zero value of type t.
func (e *Engine) zero(tt *TermTable, t types.Type) Value {
	switch t := t.(type) {
	case *types.Basic:
		info := t.Info()
		switch {
		case t.Kind() == types.UntypedNil:
			panic("untyped nil has no zero value")
		case info&types.IsBoolean != 0:
			return tt.Bool(false)
		case info&types.IsInteger != 0:
			return tt.Const(e.intWidthSort(t), 0)
		case info&types.IsFloat != 0:
			return float64(0)
		case info&types.IsString != 0:
			return ""
		case t.Kind() == types.UnsafePointer:
			return (*Value)(nil)
		case info&types.IsComplex != 0:
			return complex128(0)
		}
	case *types.Pointer:
		return (*Value)(nil)
	case *types.Array:
		a := make(Array, t.Len())
		for i := range a {
			a[i] = e.zero(tt, t.Elem())
		}
		return a
	case *types.Named, *types.Alias:
		return e.zero(tt, t.Underlying())
	case *types.Interface:
		return Iface{}
	case *types.Slice:
		return Slice{}
	case *types.Struct:
		s := make(Struct, t.NumFields())
		for i := range s {
			s[i] = e.zero(tt, t.Field(i).Type())
		}
		return s
	case *types.Tuple:
		if t.Len() == 1 {
			return e.zero(tt, t.At(0).Type())
		}
		s := make(Tuple, t.Len())
		for i := range s {
			s[i] = e.zero(tt, t.At(i).Type())
		}
		return s
	case *types.Chan:
		return (*ChanObj)(nil)
	case *types.Map:
		return (*MapObj)(nil)
	case *types.Signature:
		return (*Closure)(nil)
	case *types.TypeParam:
		panic("zero of type parameter")
	}
	panic(fmt.Sprintf("zero: unexpected type %T %v", t, t))
}

func intWidth(t *types.Basic) int {
	switch t.Kind() {
	case types.Int8, types.Uint8:
		return 8
	case types.Int16, types.Uint16:
		return 16
	case types.Int32, types.Uint32:
		return 32
	case types.Bool, types.UntypedBool:
		return 0
	}
	return 64
}

func isSigned(t *types.Basic) bool {
	return t.Info()&types.IsUnsigned == 0
}

// intWidthSort returns the term sort for an integer type in the current encoding.
func (e *Engine) intWidthSort(t *types.Basic) int {
	if e.intMode {
		return SortInt
	}
	return intWidth(t)
}

// copyVal copies aggregates (value semantics).
func copyVal(v Value) Value {
	switch v := v.(type) {
	case Struct:
		n := make(Struct, len(v))
		for i, f := range v {
			n[i] = copyVal(f)
		}
		return n
	case Array:
		n := make(Array, len(v))
		for i, f := range v {
			n[i] = copyVal(f)
		}
		return n
	case Tuple:
		n := make(Tuple, len(v))
		for i, f := range v {
			n[i] = copyVal(f)
		}
		return n
	}
	return v
}

func load(addr *Value) Value {
	return copyVal(*addr)
}

// store copies v into *addr in place so that interior pointers stay valid.
func store(addr *Value, v Value) {
	switch rhs := v.(type) {
	case Struct:
		if lhs, ok := (*addr).(Struct); ok && len(lhs) == len(rhs) {
			for i := range lhs {
				store(&lhs[i], rhs[i])
			}
			return
		}
	case Array:
		if lhs, ok := (*addr).(Array); ok && len(lhs) == len(rhs) {
			for i := range lhs {
				store(&lhs[i], rhs[i])
			}
			return
		}
	}
	*addr = copyVal(v)
}

// ---------- maps ----------

// keyString returns a canonical string for a fully concrete comparable value, ok=false if any leaf is symbolic.
func keyString(v Value) (string, bool) {
	var sb strings.Builder
	ok := keyStr(&sb, v)
	return sb.String(), ok
}

func keyStr(sb *strings.Builder, v Value) bool {
	switch v := v.(type) {
	case *Term:
		if !v.IsConst() {
			return false
		}
		fmt.Fprintf(sb, "i%d;", v.val)
	case string:
		fmt.Fprintf(sb, "s%d:%s;", len(v), v)
	case float64:
		fmt.Fprintf(sb, "f%v;", v)
	case *Value:
		fmt.Fprintf(sb, "p%p;", v)
	case Struct:
		sb.WriteString("{")
		for _, f := range v {
			if !keyStr(sb, f) {
				return false
			}
		}
		sb.WriteString("}")
	case Array:
		sb.WriteString("[")
		for _, f := range v {
			if !keyStr(sb, f) {
				return false
			}
		}
		sb.WriteString("]")
	case Iface:
		if v.t == nil {
			sb.WriteString("nil;")
		} else {
			fmt.Fprintf(sb, "I%s:", v.t.String())
			return keyStr(sb, v.v)
		}
	case *ChanObj:
		fmt.Fprintf(sb, "c%p;", v)
	case *MapObj:
		fmt.Fprintf(sb, "m%p;", v)
	case *ExtError:
		fmt.Fprintf(sb, "e%p;", v)
	case *Opaque:
		fmt.Fprintf(sb, "o%p;", v)
	case *Closure:
		fmt.Fprintf(sb, "C%p;", v)
	case *ssa.Function:
		fmt.Fprintf(sb, "F%p;", v)
	default:
		panic(fmt.Sprintf("keyStr: unhandled %T", v))
	}
	return true
}

func newMap() *MapObj { return &MapObj{index: map[string]*mapEntry{}} }

func (m *MapObj) liveEntries() []*mapEntry {
	var out []*mapEntry
	for _, e := range m.entries {
		if !e.deleted {
			out = append(out, e)
		}
	}
	return out
}

// ---------- printing (debug / samples) ----------

func valStr(v Value) string {
	switch v := v.(type) {
	case nil:
		return "<nil>"
	case *Term:
		return termStr(v, 4)
	case string:
		return fmt.Sprintf("%q", v)
	case float64:
		return fmt.Sprint(v)
	case *Value:
		if v == nil {
			return "nilptr"
		}
		return fmt.Sprintf("&%p", v)
	case Struct:
		var parts []string
		for _, f := range v {
			parts = append(parts, valStr(f))
		}
		return "{" + strings.Join(parts, ",") + "}"
	case Array:
		var parts []string
		for _, f := range v {
			parts = append(parts, valStr(f))
		}
		return "[" + strings.Join(parts, ",") + "]"
	case Tuple:
		var parts []string
		for _, f := range v {
			parts = append(parts, valStr(f))
		}
		return "(" + strings.Join(parts, ",") + ")"
	case Slice:
		var parts []string
		for _, f := range v.a {
			parts = append(parts, valStr(f))
		}
		return "s[" + strings.Join(parts, ",") + "]"
	case Iface:
		if v.t == nil {
			return "iface(nil)"
		}
		return fmt.Sprintf("iface(%s:%s)", v.t, valStr(v.v))
	case *ExtError:
		return "exterr(" + v.msg + ")"
	case *MapObj:
		if v == nil {
			return "map(nil)"
		}
		var parts []string
		for _, e := range v.liveEntries() {
			parts = append(parts, valStr(e.k)+":"+valStr(e.v))
		}
		sort.Strings(parts)
		return "map[" + strings.Join(parts, ",") + "]"
	}
	return fmt.Sprintf("%T", v)
}

func termStr(t *Term, depth int) string {
	switch t.op {
	case OConst:
		if t.w == 0 {
			return fmt.Sprint(t.val == 1)
		}
		return fmt.Sprint(t.SVal())
	case OVar:
		return t.name
	}
	if depth == 0 {
		return "…"
	}
	var parts []string
	for _, a := range t.args {
		parts = append(parts, termStr(a, depth-1))
	}
	n := opNames[t.op]
	if n == "" {
		n = fmt.Sprintf("op%d", t.op)
	}
	return "(" + n + " " + strings.Join(parts, " ") + ")"
}
