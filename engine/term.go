package main

// Terms: hash-consed SMT expression DAG with eager simplification.
// Sorts: w == 0 Bool, w in 1..64 bit-vector of that width, w == -1 mathematical Int.

import (
	"fmt"
	"math/bits"
)

type Op uint8

const (
	OConst Op = iota
	OVar
	ONot
	OAnd
	OOr
	OEq
	OIte
	OAdd
	OSub
	OMul
	OUDiv
	OSDiv
	OURem
	OSRem
	OBAnd
	OBOr
	OBXor
	OShl
	OLShr
	OAShr
	OBNot
	ONeg
	OULt
	OULe
	OSLt
	OSLe
	OZext
	OSext
	OExtract // args[0], hi=aux>>8, lo=aux&0xff
	OIDiv    // Int: SMT div
	OIMod    // Int: SMT mod
	OInt2BV  // Int -> BV(w)
	OBV2Int  // BV -> Int (unsigned value)
)

var opNames = map[Op]string{ONot: "not", OAnd: "and", OOr: "or", OEq: "=", OIte: "ite",
	OAdd: "bvadd", OSub: "bvsub", OMul: "bvmul", OUDiv: "bvudiv", OSDiv: "bvsdiv", OURem: "bvurem", OSRem: "bvsrem",
	OBAnd: "bvand", OBOr: "bvor", OBXor: "bvxor", OShl: "bvshl", OLShr: "bvlshr", OAShr: "bvashr", OBNot: "bvnot", ONeg: "bvneg",
	OULt: "bvult", OULe: "bvule", OSLt: "bvslt", OSLe: "bvsle"}

const SortInt = -1

type Term struct {
	op   Op
	w    int // sort
	args []*Term
	val  uint64 // const value (BV: zero-extended bits; Int: int64 bits; Bool: 0/1)
	aux  int    // extract hi/lo
	name string // var
	id   int
	// Int-sort interval (valid if hasRange)
	lo, hi   int64
	hasRange bool
}

type constKey struct {
	w int
	v uint64
}

type TermTable struct {
	tab    map[termKey]*Term
	consts map[constKey]*Term
	nextID int
	vars   []*Term
}

func NewTermTable() *TermTable { return &TermTable{tab: map[termKey]*Term{}} }

func (tt *TermTable) Reset() {
	tt.tab = map[termKey]*Term{}
	tt.consts = nil
	tt.nextID = 0
	tt.vars = nil
}

type termKey struct {
	op         Op
	w          int
	val        uint64
	aux        int
	name       string
	a0, a1, a2 int
	n          int
}

func (tt *TermTable) intern(t *Term) *Term {
	k := termKey{op: t.op, w: t.w, val: t.val, aux: t.aux, name: t.name, n: len(t.args)}
	switch len(t.args) {
	case 3:
		k.a2 = t.args[2].id
		fallthrough
	case 2:
		k.a1 = t.args[1].id
		fallthrough
	case 1:
		k.a0 = t.args[0].id
	}
	if e, ok := tt.tab[k]; ok {
		return e
	}
	tt.nextID++
	t.id = tt.nextID
	tt.tab[k] = t
	if t.op == OVar {
		tt.vars = append(tt.vars, t)
	}
	if t.w == SortInt {
		tt.computeRange(t)
	}
	return t
}

func mask(w int) uint64 {
	if w >= 64 {
		return ^uint64(0)
	}
	return (uint64(1) << uint(w)) - 1
}

func sext64(v uint64, w int) int64 {
	if w >= 64 {
		return int64(v)
	}
	sh := uint(64 - w)
	return int64(v<<sh) >> sh
}

func (t *Term) IsConst() bool { return t.op == OConst }
func (t *Term) IsTrue() bool  { return t.op == OConst && t.w == 0 && t.val == 1 }
func (t *Term) IsFalse() bool { return t.op == OConst && t.w == 0 && t.val == 0 }

// SVal returns the constant as signed (BV sign-extended / Int).
func (t *Term) SVal() int64 {
	if t.w == SortInt {
		return int64(t.val)
	}
	return sext64(t.val, t.w)
}

func (tt *TermTable) Const(w int, v uint64) *Term {
	if w > 0 {
		v &= mask(w)
	} else if w == 0 {
		v &= 1
	}
	ck := constKey{w, v}
	if t, ok := tt.consts[ck]; ok {
		return t
	}
	t := tt.intern(&Term{op: OConst, w: w, val: v})
	if tt.consts == nil {
		tt.consts = map[constKey]*Term{}
	}
	tt.consts[ck] = t
	return t
}
func (tt *TermTable) Bool(b bool) *Term {
	if b {
		return tt.Const(0, 1)
	}
	return tt.Const(0, 0)
}
func (tt *TermTable) IntConst(v int64) *Term { return tt.Const(SortInt, uint64(v)) }

func (tt *TermTable) Var(name string, w int) *Term {
	return tt.intern(&Term{op: OVar, w: w, name: name})
}

// VarRange creates an Int-sorted variable with a known interval.
func (tt *TermTable) VarRange(name string, lo, hi int64) *Term {
	t := tt.intern(&Term{op: OVar, w: SortInt, name: name})
	t.lo, t.hi, t.hasRange = lo, hi, true
	return t
}

func (tt *TermTable) mk(op Op, w int, args ...*Term) *Term {
	return tt.intern(&Term{op: op, w: w, args: args})
}

// ---------- boolean ----------

func (tt *TermTable) Not(a *Term) *Term {
	if a.IsConst() {
		return tt.Bool(a.val == 0)
	}
	if a.op == ONot {
		return a.args[0]
	}
	return tt.mk(ONot, 0, a)
}

func (tt *TermTable) And(a, b *Term) *Term {
	if a.IsFalse() || b.IsFalse() {
		return tt.Bool(false)
	}
	if a.IsTrue() {
		return b
	}
	if b.IsTrue() {
		return a
	}
	if a == b {
		return a
	}
	if a == tt.Not(b) {
		return tt.Bool(false)
	}
	return tt.mk(OAnd, 0, a, b)
}

func (tt *TermTable) Or(a, b *Term) *Term {
	if a.IsTrue() || b.IsTrue() {
		return tt.Bool(true)
	}
	if a.IsFalse() {
		return b
	}
	if b.IsFalse() {
		return a
	}
	if a == b {
		return a
	}
	if a == tt.Not(b) {
		return tt.Bool(true)
	}
	return tt.mk(OOr, 0, a, b)
}

func (tt *TermTable) Eq(a, b *Term) *Term {
	if a.w != b.w {
		panic(fmt.Sprintf("Eq: sort mismatch %d vs %d", a.w, b.w))
	}
	if a == b {
		return tt.Bool(true)
	}
	if a.IsConst() && b.IsConst() {
		return tt.Bool(a.val == b.val)
	}
	if a.w == 0 {
		if a.IsConst() {
			a, b = b, a
		}
		if b.IsTrue() {
			return a
		}
		if b.IsFalse() {
			return tt.Not(a)
		}
	}
	if a.w == SortInt && a.hasRange && b.hasRange && (a.hi < b.lo || b.hi < a.lo) {
		return tt.Bool(false)
	}
	if a.id > b.id {
		a, b = b, a
	}
	return tt.mk(OEq, 0, a, b)
}

func (tt *TermTable) Ite(c, a, b *Term) *Term {
	if c.IsTrue() {
		return a
	}
	if c.IsFalse() {
		return b
	}
	if a == b {
		return a
	}
	if a.w == 0 {
		if a.IsTrue() && b.IsFalse() {
			return c
		}
		if a.IsFalse() && b.IsTrue() {
			return tt.Not(c)
		}
	}
	return tt.mk(OIte, a.w, c, a, b)
}

// ---------- arithmetic (BV or Int by sort of operands) ----------

func (tt *TermTable) Bin(op Op, a, b *Term) *Term {
	if a.w != b.w {
		panic(fmt.Sprintf("Bin %v: sort mismatch %d vs %d", op, a.w, b.w))
	}
	w := a.w
	if w == SortInt {
		return tt.binInt(op, a, b)
	}
	if a.IsConst() && b.IsConst() {
		if v, ok := foldBV(op, w, a.val, b.val); ok {
			return tt.Const(w, v)
		}
	}
	switch op {
	case OAdd:
		if a.IsConst() && a.val == 0 {
			return b
		}
		if b.IsConst() && b.val == 0 {
			return a
		}
	case OSub:
		if b.IsConst() && b.val == 0 {
			return a
		}
		if a == b {
			return tt.Const(w, 0)
		}
	case OMul:
		if a.IsConst() {
			a, b = b, a
		}
		if b.IsConst() {
			if b.val == 0 {
				return b
			}
			if b.val == 1 {
				return a
			}
		}
	case OBAnd:
		if a.IsConst() {
			a, b = b, a
		}
		if b.IsConst() {
			if b.val == 0 {
				return b
			}
			if b.val == mask(w) {
				return a
			}
		}
		if a == b {
			return a
		}
	case OBOr:
		if a.IsConst() {
			a, b = b, a
		}
		if b.IsConst() {
			if b.val == 0 {
				return a
			}
			if b.val == mask(w) {
				return b
			}
		}
		if a == b {
			return a
		}
	case OBXor:
		if a.IsConst() {
			a, b = b, a
		}
		if b.IsConst() && b.val == 0 {
			return a
		}
		if a == b {
			return tt.Const(w, 0)
		}
	case OShl, OLShr, OAShr:
		if b.IsConst() && b.val == 0 {
			return a
		}
	}
	return tt.mk(op, w, a, b)
}

func foldBV(op Op, w int, x, y uint64) (uint64, bool) {
	m := mask(w)
	sx, sy := sext64(x, w), sext64(y, w)
	switch op {
	case OAdd:
		return (x + y) & m, true
	case OSub:
		return (x - y) & m, true
	case OMul:
		return (x * y) & m, true
	case OUDiv:
		if y == 0 {
			return m, true
		}
		return x / y, true
	case OURem:
		if y == 0 {
			return x, true
		}
		return x % y, true
	case OSDiv:
		if y == 0 {
			if sx >= 0 {
				return m, true
			}
			return 1, true
		}
		if sy == -1 {
			return uint64(-sx) & m, true
		}
		return uint64(sx/sy) & m, true
	case OSRem:
		if y == 0 {
			return x, true
		}
		if sy == -1 {
			return 0, true
		}
		return uint64(sx%sy) & m, true
	case OBAnd:
		return x & y, true
	case OBOr:
		return x | y, true
	case OBXor:
		return x ^ y, true
	case OShl:
		if y >= uint64(w) {
			return 0, true
		}
		return (x << y) & m, true
	case OLShr:
		if y >= uint64(w) {
			return 0, true
		}
		return x >> y, true
	case OAShr:
		if y >= uint64(w) {
			if sx < 0 {
				return m, true
			}
			return 0, true
		}
		return uint64(sx>>y) & m, true
	}
	return 0, false
}

func (tt *TermTable) Cmp(op Op, a, b *Term) *Term {
	if a.w != b.w {
		panic(fmt.Sprintf("Cmp: sort mismatch %d vs %d", a.w, b.w))
	}
	if a.IsConst() && b.IsConst() {
		var r bool
		if a.w == SortInt {
			x, y := int64(a.val), int64(b.val)
			switch op {
			case OSLt, OULt:
				r = x < y
			case OSLe, OULe:
				r = x <= y
			}
		} else {
			switch op {
			case OULt:
				r = a.val < b.val
			case OULe:
				r = a.val <= b.val
			case OSLt:
				r = sext64(a.val, a.w) < sext64(b.val, b.w)
			case OSLe:
				r = sext64(a.val, a.w) <= sext64(b.val, b.w)
			}
		}
		return tt.Bool(r)
	}
	if a == b {
		return tt.Bool(op == OULe || op == OSLe)
	}
	if a.w == SortInt {
		if op == OULt {
			op = OSLt
		}
		if op == OULe {
			op = OSLe
		}
		if a.hasRange && b.hasRange {
			if op == OSLt {
				if a.hi < b.lo {
					return tt.Bool(true)
				}
				if a.lo >= b.hi {
					return tt.Bool(false)
				}
			} else {
				if a.hi <= b.lo {
					return tt.Bool(true)
				}
				if a.lo > b.hi {
					return tt.Bool(false)
				}
			}
		}
	}
	return tt.mk(op, 0, a, b)
}

func (tt *TermTable) Un(op Op, a *Term) *Term {
	if a.w == SortInt {
		if op == ONeg {
			return tt.binInt(OSub, tt.IntConst(0), a)
		}
		panic("Un: unsupported Int unary")
	}
	if a.IsConst() {
		switch op {
		case OBNot:
			return tt.Const(a.w, ^a.val)
		case ONeg:
			return tt.Const(a.w, -a.val)
		}
	}
	if a.op == op {
		return a.args[0]
	}
	return tt.mk(op, a.w, a)
}

func (tt *TermTable) Zext(a *Term, w int) *Term {
	if a.w == w {
		return a
	}
	if a.IsConst() {
		return tt.Const(w, a.val)
	}
	return tt.mk(OZext, w, a)
}

func (tt *TermTable) Sext(a *Term, w int) *Term {
	if a.w == w {
		return a
	}
	if a.IsConst() {
		return tt.Const(w, uint64(sext64(a.val, a.w)))
	}
	return tt.mk(OSext, w, a)
}

func (tt *TermTable) Extract(a *Term, hi, lo int) *Term {
	w := hi - lo + 1
	if lo == 0 && w == a.w {
		return a
	}
	if a.IsConst() {
		return tt.Const(w, a.val>>uint(lo))
	}
	if lo == 0 && (a.op == OZext || a.op == OSext) {
		inner := a.args[0]
		if inner.w == w {
			return inner
		}
		if inner.w > w {
			return tt.Extract(inner, hi, 0)
		}
	}
	return tt.intern(&Term{op: OExtract, w: w, args: []*Term{a}, aux: hi<<8 | lo})
}

// ---------- Int sort ----------

const rangeLimit = int64(1) << 62

func satAdd(a, b int64) (int64, bool) {
	c := a + b
	if (a > 0 && b > 0 && c < 0) || (a < 0 && b < 0 && c >= 0) || c >= rangeLimit || c <= -rangeLimit {
		return 0, false
	}
	return c, true
}

func satMul(a, b int64) (int64, bool) {
	hi, lo := bits.Mul64(uint64(abs64(a)), uint64(abs64(b)))
	if hi != 0 || lo >= uint64(rangeLimit) {
		return 0, false
	}
	r := int64(lo)
	if (a < 0) != (b < 0) {
		r = -r
	}
	return r, true
}

func abs64(a int64) int64 {
	if a < 0 {
		return -a
	}
	return a
}

func (tt *TermTable) computeRange(t *Term) {
	if t.hasRange {
		return
	}
	switch t.op {
	case OConst:
		t.lo, t.hi, t.hasRange = int64(t.val), int64(t.val), true
	case OAdd:
		a, b := t.args[0], t.args[1]
		if a.hasRange && b.hasRange {
			lo, ok1 := satAdd(a.lo, b.lo)
			hi, ok2 := satAdd(a.hi, b.hi)
			if ok1 && ok2 {
				t.lo, t.hi, t.hasRange = lo, hi, true
			}
		}
	case OSub:
		a, b := t.args[0], t.args[1]
		if a.hasRange && b.hasRange {
			lo, ok1 := satAdd(a.lo, -b.hi)
			hi, ok2 := satAdd(a.hi, -b.lo)
			if ok1 && ok2 {
				t.lo, t.hi, t.hasRange = lo, hi, true
			}
		}
	case OMul:
		a, b := t.args[0], t.args[1]
		if a.hasRange && b.hasRange {
			c := [4][2]int64{{a.lo, b.lo}, {a.lo, b.hi}, {a.hi, b.lo}, {a.hi, b.hi}}
			ok := true
			var lo, hi int64
			for i, p := range c {
				v, o := satMul(p[0], p[1])
				if !o {
					ok = false
					break
				}
				if i == 0 || v < lo {
					lo = v
				}
				if i == 0 || v > hi {
					hi = v
				}
			}
			if ok {
				t.lo, t.hi, t.hasRange = lo, hi, true
			}
		}
	case OIte:
		a, b := t.args[1], t.args[2]
		if a.hasRange && b.hasRange {
			t.lo, t.hi, t.hasRange = min(a.lo, b.lo), max(a.hi, b.hi), true
		}
	case OIMod:
		if len(t.args) == 1 {
			return
		}
		b := t.args[1]
		if b.IsConst() && int64(b.val) > 0 {
			t.lo, t.hi, t.hasRange = 0, int64(b.val)-1, true
		} else if b.hasRange {
			m := max(abs64(b.lo), abs64(b.hi))
			t.lo, t.hi, t.hasRange = 0, m, true
		}
		if a := t.args[0]; t.hasRange && a.hasRange && a.lo >= 0 && a.hi < t.hi {
			t.hi = a.hi
		}
	case OIDiv:
		a, b := t.args[0], t.args[1]
		if a.hasRange {
			m := max(abs64(a.lo), abs64(a.hi))
			t.lo, t.hi, t.hasRange = -m, m, true
			if a.lo >= 0 && b.hasRange && b.lo > 0 {
				t.lo, t.hi = 0, a.hi
			}
		}
	case OBV2Int:
		w := t.args[0].w
		if w < 62 {
			t.lo, t.hi, t.hasRange = 0, int64(mask(w)), true
		}
	}
}

func (tt *TermTable) binInt(op Op, a, b *Term) *Term {
	if a.IsConst() && b.IsConst() {
		x, y := int64(a.val), int64(b.val)
		switch op {
		case OAdd:
			if r, ok := satAdd(x, y); ok {
				return tt.IntConst(r)
			}
		case OSub:
			if r, ok := satAdd(x, -y); ok {
				return tt.IntConst(r)
			}
		case OMul:
			if r, ok := satMul(x, y); ok {
				return tt.IntConst(r)
			}
		case OIDiv:
			if y != 0 {
				q := x / y
				r := x % y
				if r < 0 {
					if y > 0 {
						q--
					} else {
						q++
					}
				}
				return tt.IntConst(q)
			}
		case OIMod:
			if y != 0 {
				r := x % y
				if r < 0 {
					r += abs64(y)
				}
				return tt.IntConst(r)
			}
		}
	}
	switch op {
	case OAdd:
		if a.IsConst() && a.val == 0 {
			return b
		}
		if b.IsConst() && b.val == 0 {
			return a
		}
	case OSub:
		if b.IsConst() && b.val == 0 {
			return a
		}
		if a == b {
			return tt.IntConst(0)
		}
	case OMul:
		if a.IsConst() {
			a, b = b, a
		}
		if b.IsConst() {
			if b.val == 0 {
				return b
			}
			if b.val == 1 {
				return a
			}
		}
	case OIMod:
		// x mod m == x when 0 <= x < m
		if b.IsConst() && a.hasRange && a.lo >= 0 && a.hi < int64(b.val) {
			return a
		}
	}
	switch op {
	case OAdd, OSub, OMul, OIDiv, OIMod:
		return tt.mk(op, SortInt, a, b)
	}
	panic(fmt.Sprintf("binInt: unsupported op %d", op))
}

// WrapInt wraps an Int-sorted term to Go's k-bit signed/unsigned range.
func (tt *TermTable) WrapInt(a *Term, k int, signed bool) *Term {
	var lo, hi int64
	if signed {
		lo, hi = -(int64(1) << uint(k-1)), (int64(1)<<uint(k-1))-1
	} else {
		lo = 0
		if k >= 63 {
			hi = rangeLimit - 1 // approximated; uint64 values above 2^62 are not representable in range tracking
		} else {
			hi = (int64(1) << uint(k)) - 1
		}
	}
	if a.hasRange && a.lo >= lo && a.hi <= hi {
		return a
	}
	if k >= 63 {
		// 2^64 modulus does not fit; emit via explicit big constant handled by printer (aux = k)
		t := tt.intern(&Term{op: OIMod, w: SortInt, args: []*Term{a}, aux: k<<1 | b2i(signed)})
		return t
	}
	m := tt.IntConst(int64(1) << uint(k))
	if !signed {
		return tt.binInt(OIMod, a, m)
	}
	h := tt.IntConst(int64(1) << uint(k-1))
	r := tt.binInt(OSub, tt.binInt(OIMod, tt.binInt(OAdd, a, h), m), h)
	if !r.hasRange {
		r.lo, r.hi, r.hasRange = lo, hi, true
	}
	return r
}

func b2i(b bool) int {
	if b {
		return 1
	}
	return 0
}

func (tt *TermTable) Int2BV(a *Term, w int) *Term {
	if a.IsConst() {
		return tt.Const(w, a.val)
	}
	if a.op == OBV2Int && a.args[0].w == w {
		return a.args[0]
	}
	return tt.mk(OInt2BV, w, a)
}

func (tt *TermTable) BV2Int(a *Term, signed bool) *Term {
	if a.IsConst() {
		if signed {
			return tt.IntConst(sext64(a.val, a.w))
		}
		return tt.IntConst(int64(a.val))
	}
	u := tt.mk(OBV2Int, SortInt, a)
	if !signed {
		return u
	}
	return tt.WrapInt(u, a.w, true)
}

// ---------- evaluation under a model ----------

type Model map[string]uint64

func (t *Term) Eval(m Model, memo map[*Term]uint64) uint64 {
	if v, ok := memo[t]; ok {
		return v
	}
	var r uint64
	arg := func(i int) uint64 { return t.args[i].Eval(m, memo) }
	switch t.op {
	case OConst:
		r = t.val
	case OVar:
		r = m[t.name]
	case ONot:
		r = 1 - arg(0)
	case OAnd:
		r = arg(0) & arg(1)
	case OOr:
		r = arg(0) | arg(1)
	case OEq:
		if arg(0) == arg(1) {
			r = 1
		}
	case OIte:
		if arg(0) == 1 {
			r = arg(1)
		} else {
			r = arg(2)
		}
	case OULt, OULe, OSLt, OSLe:
		x, y := arg(0), arg(1)
		w := t.args[0].w
		var b bool
		if w == SortInt {
			sx, sy := int64(x), int64(y)
			if t.op == OSLt || t.op == OULt {
				b = sx < sy
			} else {
				b = sx <= sy
			}
		} else {
			switch t.op {
			case OULt:
				b = x < y
			case OULe:
				b = x <= y
			case OSLt:
				b = sext64(x, w) < sext64(y, w)
			case OSLe:
				b = sext64(x, w) <= sext64(y, w)
			}
		}
		if b {
			r = 1
		}
	case OZext:
		r = arg(0)
	case OSext:
		r = uint64(sext64(arg(0), t.args[0].w)) & mask(t.w)
	case OExtract:
		r = (arg(0) >> uint(t.aux&0xff)) & mask(t.w)
	case OBNot:
		r = ^arg(0) & mask(t.w)
	case ONeg:
		r = -arg(0) & mask(t.w)
	case OInt2BV:
		r = arg(0) & mask(t.w)
	case OBV2Int:
		r = arg(0)
	default:
		if t.w == SortInt {
			x, y := int64(arg(0)), int64(0)
			if len(t.args) > 1 {
				y = int64(arg(1))
			}
			switch t.op {
			case OAdd:
				r = uint64(x + y)
			case OSub:
				r = uint64(x - y)
			case OMul:
				r = uint64(x * y)
			case OIDiv:
				if y != 0 {
					q := x / y
					if x%y < 0 {
						if y > 0 {
							q--
						} else {
							q++
						}
					}
					r = uint64(q)
				}
			case OIMod:
				if len(t.args) == 1 { // wrap64
					r = uint64(x)
				} else if y != 0 {
					rr := x % y
					if rr < 0 {
						rr += abs64(y)
					}
					r = uint64(rr)
				}
			}
		} else {
			v, _ := foldBV(t.op, t.w, arg(0), arg(1))
			r = v
		}
	}
	memo[t] = r
	return r
}
