package main

// Model of the part of github.com/dgraph-io/badger/v3 that raftkvs.PersistentLog uses: a DB is an ideal durable
// key -> bytes map; a WriteBatch collects Set/Delete operations and applies them, in order, at Flush (Cancel after
// Flush is a no-op, Cancel without Flush discards). Values are the gob model's blobs. The harness opens the store and
// reads it back through verifBadgerOpen / verifBadgerGet (natively: an in-memory badger instance).

import "sort"

type badgerOp struct {
	del bool
	key string
	val Value
}

type badgerWB struct {
	db  *Value
	ops []badgerOp
}

func (p *Path) badgerStore(db *Value) map[string]Value {
	type storeKey struct{ db *Value }
	m, ok := p.side[storeKey{db}].(map[string]Value)
	if !ok {
		m = map[string]Value{}
		p.side[storeKey{db}] = m
	}
	return m
}

const badgerPkg = "github.com/dgraph-io/badger/v3"

func init() {
	harnessAPI["verifBadgerOpen"] = func(p *Path, th *Thread, fr *Frame, args []Value) Value {
		cell := new(Value)
		*cell = p.e.zero(p.tt, p.e.pkgs[badgerPkg].Type("DB").Type())
		p.badgerStore(cell)
		return cell
	}
	harnessAPI["verifBadgerGet"] = func(p *Path, th *Thread, fr *Frame, args []Value) Value {
		v, ok := p.badgerStore(args[0].(*Value))[args[1].(string)]
		if !ok {
			return Tuple{Slice{a: []Value{}}, p.tt.Bool(false)}
		}
		return Tuple{v, p.tt.Bool(true)}
	}
	harnessAPI["verifBadgerKeys"] = func(p *Path, th *Thread, fr *Frame, args []Value) Value {
		var keys []string
		for k := range p.badgerStore(args[0].(*Value)) {
			keys = append(keys, k)
		}
		sort.Strings(keys)
		out := make([]Value, len(keys))
		for i, k := range keys {
			out[i] = k
		}
		return Slice{a: out}
	}
	intrinsics["(*"+badgerPkg+".DB).NewWriteBatch"] = func(p *Path, th *Thread, fr *Frame, args []Value) Value {
		cell := new(Value)
		*cell = p.e.zero(p.tt, p.e.pkgs[badgerPkg].Type("WriteBatch").Type())
		p.side[cell] = &badgerWB{db: args[0].(*Value)}
		return cell
	}
	intrinsics["(*"+badgerPkg+".WriteBatch).Set"] = func(p *Path, th *Thread, fr *Frame, args []Value) Value {
		wb := p.side[args[0].(*Value)].(*badgerWB)
		wb.ops = append(wb.ops, badgerOp{key: bytesToString(p, args[1].(Slice)), val: args[2]})
		return Iface{}
	}
	intrinsics["(*"+badgerPkg+".WriteBatch).Delete"] = func(p *Path, th *Thread, fr *Frame, args []Value) Value {
		wb := p.side[args[0].(*Value)].(*badgerWB)
		wb.ops = append(wb.ops, badgerOp{del: true, key: bytesToString(p, args[1].(Slice))})
		return Iface{}
	}
	intrinsics["(*"+badgerPkg+".WriteBatch).Flush"] = func(p *Path, th *Thread, fr *Frame, args []Value) Value {
		wb := p.side[args[0].(*Value)].(*badgerWB)
		m := p.badgerStore(wb.db)
		for _, op := range wb.ops {
			if op.del {
				delete(m, op.key)
			} else {
				m[op.key] = op.val
			}
		}
		wb.ops = nil
		return Iface{}
	}
	intrinsics["(*"+badgerPkg+".WriteBatch).Cancel"] = func(p *Path, th *Thread, fr *Frame, args []Value) Value {
		p.side[args[0].(*Value)].(*badgerWB).ops = nil
		return nil
	}
}
