package main

// Model of encoding/gob + bytes.Buffer as an ideal typed item stream.
// Encode(x): if x's type has GobEncode the REAL method is executed symbolically and its blob is pushed;
// a struct pushes its exported fields; an interface pushes (concrete type, value). Decode is the inverse and
// calls the real GobDecode. Trusted: gob's byte format.

import (
	"fmt"
	"go/types"

	"golang.org/x/tools/go/ssa"
)

type gv struct {
	kind   string // basic | struct | iface | nil | blob | seq | map | opaque
	t      types.Type
	val    Value
	fields []gv
	names  []string
	dyn    types.Type
	inner  *gv
	blob   []gv
	keys   []gv
}

type gobStream struct {
	items []gv
	// for connections: reader side may block until items arrive
	closed bool
}

type gobBlob struct{ items []gv }

type bufKey struct{ cell *Value }
type encKey struct{ cell *Value }
type decKey struct{ cell *Value }

func (p *Path) bufStream(cell *Value) *gobStream {
	k := bufKey{cell}
	if s, ok := p.side[k].(*gobStream); ok {
		return s
	}
	s := &gobStream{}
	p.side[k] = s
	return s
}

func blobSlice(items []gv) Slice {
	if len(items) == 0 {
		return Slice{a: []Value{}}
	}
	return Slice{a: []Value{&gobBlob{items: append([]gv{}, items...)}}}
}

func blobItems(p *Path, s Slice) []gv {
	if len(s.a) == 0 {
		return nil
	}
	if b, ok := s.a[0].(*gobBlob); ok && len(s.a) == 1 {
		return append([]gv{}, b.items...)
	}
	p.unsupported("gob model: raw byte slice that is not an encoder blob")
	return nil
}

// streamOf resolves the io.Writer / io.Reader given to NewEncoder / NewDecoder.
func (p *Path) streamOf(w Iface, write bool) *gobStream {
	if w.t == nil {
		p.unsupported("gob model: nil reader/writer")
	}
	switch w.t.String() {
	case "*bytes.Buffer":
		return p.bufStream(w.v.(*Value))
	}
	if s := p.connStream(w, write); s != nil {
		return s
	}
	p.unsupported("gob model: reader/writer of type %s", w.t)
	return nil
}

func (p *Path) safeLookup(t types.Type, name string) *ssa.Function {
	sel := p.e.prog.MethodSets.MethodSet(t).Lookup(nil, name)
	if sel == nil {
		return nil
	}
	return p.e.prog.MethodValue(sel)
}

func (p *Path) findMethod(t types.Type, name string) (*ssa.Function, bool) {
	// returns the method and whether it needs a pointer receiver
	if _, isIface := t.Underlying().(*types.Interface); isIface {
		return nil, false
	}
	if m := p.safeLookup(t, name); m != nil {
		return m, false
	}
	if _, isPtr := t.(*types.Pointer); !isPtr {
		if m := p.safeLookup(types.NewPointer(t), name); m != nil {
			return m, true
		}
	}
	return nil, false
}

func (p *Path) isInterpretedType(t types.Type) bool {
	if n, ok := t.(*types.Named); ok && n.Obj().Pkg() != nil {
		return p.e.shouldInterpretPkg(n.Obj().Pkg().Path())
	}
	return true
}

func isExported(name string) bool {
	return name != "" && name[0] >= 'A' && name[0] <= 'Z'
}

// gobEncodeVal encodes value v of static type t. Returns error Iface (nil type = ok).
func (p *Path) gobEncodeVal(th *Thread, fr *Frame, t types.Type, v Value) (gv, Iface) {
	if n, ok := t.(*types.Named); ok && !p.isInterpretedType(n) {
		return gv{kind: "opaque", t: t, val: copyVal(v)}, Iface{}
	}
	if _, isIface := t.Underlying().(*types.Interface); !isIface {
		if m, needPtr := p.findMethod(t, "GobEncode"); m != nil {
			var recv Value = v
			if needPtr {
				cell := new(Value)
				*cell = copyVal(v)
				recv = cell
			} else if isNilPtr(v) {
				return gv{kind: "nil", t: t}, Iface{}
			}
			res := p.call(th, fr, m, []Value{recv}).(Tuple)
			if err := res[1].(Iface); err.t != nil {
				return gv{}, err
			}
			return gv{kind: "blob", t: t, blob: blobItems(p, res[0].(Slice))}, Iface{}
		}
	}
	switch u := t.Underlying().(type) {
	case *types.Basic:
		return gv{kind: "basic", t: t, val: v}, Iface{}
	case *types.Pointer:
		ptr := v.(*Value)
		if ptr == nil {
			return gv{kind: "nil", t: t}, Iface{}
		}
		return p.gobEncodeVal(th, fr, u.Elem(), load(ptr))
	case *types.Struct:
		s := v.(Struct)
		g := gv{kind: "struct", t: t}
		for i := 0; i < u.NumFields(); i++ {
			f := u.Field(i)
			if !f.Exported() {
				continue
			}
			fg, err := p.gobEncodeVal(th, fr, f.Type(), s[i])
			if err.t != nil {
				return gv{}, err
			}
			g.fields = append(g.fields, fg)
			g.names = append(g.names, f.Name())
		}
		return g, Iface{}
	case *types.Interface:
		i := v.(Iface)
		if i.t == nil {
			return gv{kind: "nil", t: t}, Iface{}
		}
		inner, err := p.gobEncodeVal(th, fr, i.t, i.v)
		if err.t != nil {
			return gv{}, err
		}
		return gv{kind: "iface", t: t, dyn: i.t, inner: &inner}, Iface{}
	case *types.Slice:
		s := v.(Slice)
		g := gv{kind: "seq", t: t}
		if s.a == nil {
			g.kind = "nil"
			return g, Iface{}
		}
		for _, e := range s.a {
			eg, err := p.gobEncodeVal(th, fr, u.Elem(), e)
			if err.t != nil {
				return gv{}, err
			}
			g.fields = append(g.fields, eg)
		}
		return g, Iface{}
	case *types.Array:
		g := gv{kind: "seq", t: t}
		for _, e := range v.(Array) {
			eg, err := p.gobEncodeVal(th, fr, u.Elem(), e)
			if err.t != nil {
				return gv{}, err
			}
			g.fields = append(g.fields, eg)
		}
		return g, Iface{}
	case *types.Map:
		m := v.(*MapObj)
		g := gv{kind: "map", t: t}
		if m == nil {
			g.kind = "nil"
			return g, Iface{}
		}
		for _, e := range m.liveEntries() {
			kg, err := p.gobEncodeVal(th, fr, u.Key(), e.k)
			if err.t != nil {
				return gv{}, err
			}
			vg, err := p.gobEncodeVal(th, fr, u.Elem(), e.v)
			if err.t != nil {
				return gv{}, err
			}
			g.keys = append(g.keys, kg)
			g.fields = append(g.fields, vg)
		}
		return g, Iface{}
	}
	p.unsupported("gob model: encode of type %s", t)
	return gv{}, Iface{}
}

// gobDecodeInto stores g into *ptr whose static type is t.
func (p *Path) gobDecodeInto(th *Thread, fr *Frame, ptr *Value, t types.Type, g gv) Iface {
	if g.kind == "opaque" {
		store(ptr, copyVal(g.val))
		return Iface{}
	}
	if _, isIface := t.Underlying().(*types.Interface); !isIface {
		if pt, isPtr := t.(*types.Pointer); isPtr {
			if g.kind == "nil" {
				return Iface{}
			}
			// gob's decAlloc: a non-nil pointer is written through, a nil pointer gets fresh storage
			if cur, ok := load(ptr).(*Value); ok && cur != nil {
				return p.gobDecodeInto(th, fr, cur, pt.Elem(), g)
			}
			cell := new(Value)
			*cell = p.e.zero(p.tt, pt.Elem())
			if err := p.gobDecodeInto(th, fr, cell, pt.Elem(), g); err.t != nil {
				return err
			}
			store(ptr, cell)
			return Iface{}
		}
		if m, _ := p.findMethod(types.NewPointer(t), "GobDecode"); m != nil {
			if g.kind != "blob" {
				return mkExtErr("gob: type mismatch: expected GobDecoder payload for " + t.String())
			}
			res := p.call(th, fr, m, []Value{ptr, blobSlice(g.blob)})
			return res.(Iface)
		}
	}
	switch u := t.Underlying().(type) {
	case *types.Basic:
		if g.kind != "basic" {
			return mkExtErr(fmt.Sprintf("gob: type mismatch: got %s for %s", g.kind, t))
		}
		store(ptr, g.val)
		return Iface{}
	case *types.Struct:
		if g.kind != "struct" {
			return mkExtErr(fmt.Sprintf("gob: type mismatch: got %s for %s", g.kind, t))
		}
		s := (*ptr).(Struct)
		for i := 0; i < u.NumFields(); i++ {
			f := u.Field(i)
			if !f.Exported() {
				continue
			}
			for j, n := range g.names {
				if n == f.Name() {
					if err := p.gobDecodeInto(th, fr, &s[i], f.Type(), g.fields[j]); err.t != nil {
						return err
					}
				}
			}
		}
		return Iface{}
	case *types.Interface:
		switch g.kind {
		case "nil":
			store(ptr, Iface{})
			return Iface{}
		case "iface":
			cell := new(Value)
			*cell = p.e.zero(p.tt, g.dyn)
			if err := p.gobDecodeInto(th, fr, cell, g.dyn, *g.inner); err.t != nil {
				return err
			}
			store(ptr, Iface{t: g.dyn, v: *cell})
			return Iface{}
		}
		return mkExtErr(fmt.Sprintf("gob: type mismatch: got %s for interface %s", g.kind, t))
	case *types.Slice:
		if g.kind == "nil" {
			return Iface{}
		}
		a := make([]Value, len(g.fields))
		for i := range a {
			a[i] = p.e.zero(p.tt, u.Elem())
			if err := p.gobDecodeInto(th, fr, &a[i], u.Elem(), g.fields[i]); err.t != nil {
				return err
			}
		}
		store(ptr, Slice{a: a})
		return Iface{}
	case *types.Array:
		a := (*ptr).(Array)
		for i := range a {
			if i < len(g.fields) {
				if err := p.gobDecodeInto(th, fr, &a[i], u.Elem(), g.fields[i]); err.t != nil {
					return err
				}
			}
		}
		return Iface{}
	case *types.Map:
		if g.kind == "nil" {
			return Iface{}
		}
		m := newMap()
		for i := range g.keys {
			kc, vc := new(Value), new(Value)
			*kc, *vc = p.e.zero(p.tt, u.Key()), p.e.zero(p.tt, u.Elem())
			if err := p.gobDecodeInto(th, fr, kc, u.Key(), g.keys[i]); err.t != nil {
				return err
			}
			if err := p.gobDecodeInto(th, fr, vc, u.Elem(), g.fields[i]); err.t != nil {
				return err
			}
			p.mapSet(m, *kc, *vc)
		}
		store(ptr, m)
		return Iface{}
	}
	p.unsupported("gob model: decode into type %s", t)
	return Iface{}
}

func (p *Path) ioEOF() Iface {
	if pkg := p.e.pkgs["io"]; pkg != nil {
		if g, ok := pkg.Members["EOF"].(*ssa.Global); ok {
			return (*p.globalAddr(g)).(Iface)
		}
	}
	return mkExtErr("EOF")
}

func (p *Path) newModelObject(pkg, typ string, state any) *Value {
	cell := new(Value)
	*cell = p.e.zero(p.tt, p.e.pkgs[pkg].Type(typ).Type())
	p.side[cell] = state
	return cell
}

func registerGobIntrinsics() {
	intrinsics["encoding/gob.NewEncoder"] = func(p *Path, th *Thread, fr *Frame, args []Value) Value {
		return p.newModelObject("encoding/gob", "Encoder", &gobEnc{w: args[0].(Iface)})
	}
	intrinsics["encoding/gob.NewDecoder"] = func(p *Path, th *Thread, fr *Frame, args []Value) Value {
		return p.newModelObject("encoding/gob", "Decoder", &gobDec{r: args[0].(Iface)})
	}
	intrinsics["(*encoding/gob.Encoder).Encode"] = func(p *Path, th *Thread, fr *Frame, args []Value) Value {
		enc := p.side[args[0].(*Value)].(*gobEnc)
		e := args[1].(Iface)
		if e.t == nil {
			return mkExtErr("gob: cannot encode nil value")
		}
		if pt, ok := e.t.(*types.Pointer); ok && isNilPtr(e.v) {
			_ = pt
			return mkExtErr("gob: cannot encode nil pointer of type " + e.t.String())
		}
		g, err := p.gobEncodeVal(th, fr, e.t, e.v)
		if err.t != nil {
			return err
		}
		return p.streamWrite(th, enc.w, g)
	}
	intrinsics["(*encoding/gob.Decoder).Decode"] = func(p *Path, th *Thread, fr *Frame, args []Value) Value {
		dec := p.side[args[0].(*Value)].(*gobDec)
		e := args[1].(Iface)
		g, err := p.streamRead(th, dec.r)
		if err.t != nil {
			return err
		}
		if e.t == nil {
			return Iface{} // Decode(nil) discards the value
		}
		pt, ok := e.t.(*types.Pointer)
		if !ok {
			return mkExtErr("gob: attempt to decode into a non-pointer")
		}
		return p.gobDecodeInto(th, fr, e.v.(*Value), pt.Elem(), g)
	}
	intrinsics["bytes.NewBuffer"] = func(p *Path, th *Thread, fr *Frame, args []Value) Value {
		cell := new(Value)
		*cell = p.e.zero(p.tt, p.e.pkgs["bytes"].Type("Buffer").Type())
		s := p.bufStream(cell)
		s.items = blobItems(p, args[0].(Slice))
		return cell
	}
	intrinsics["(*bytes.Buffer).Bytes"] = func(p *Path, th *Thread, fr *Frame, args []Value) Value {
		return blobSlice(p.bufStream(args[0].(*Value)).items)
	}
	intrinsics["(*bytes.Buffer).Reset"] = func(p *Path, th *Thread, fr *Frame, args []Value) Value {
		p.bufStream(args[0].(*Value)).items = nil
		return nil
	}
	intrinsics["(*bytes.Buffer).Len"] = func(p *Path, th *Thread, fr *Frame, args []Value) Value {
		return p.mkIntT(int64(len(p.bufStream(args[0].(*Value)).items)))
	}
}

type gobEnc struct{ w Iface }
type gobDec struct{ r Iface }

// streamWrite pushes an item to the writer's stream (buffer or connection).
func (p *Path) streamWrite(th *Thread, w Iface, g gv) Value {
	s := p.streamOf(w, true)
	if s.closed {
		return mkExtErr("write on closed connection")
	}
	s.items = append(s.items, g)
	return Iface{}
}

// streamRead pops the next item; buffers return io.EOF when empty, connections block.
func (p *Path) streamRead(th *Thread, r Iface) (gv, Iface) {
	s := p.streamOf(r, false)
	if r.t.String() != "*bytes.Buffer" {
		if err := p.connWaitReadable(th, r, s); err.t != nil {
			return gv{}, err
		}
	}
	if len(s.items) == 0 {
		return gv{}, p.ioEOF()
	}
	g := s.items[0]
	s.items = s.items[1:]
	return g, Iface{}
}
